#!/bin/bash
# usage: tools/seedcheck.sh <seed dir with out/patch.diff out/demo.py> <name> <check ids...>
# Confirms an independently written property-breaking change in a scratch worktree (never /repo):
#  the patch applies, the 286 tests pass with it, the demo fails with it and passes without it;
# then runs the given checks against it.  On success copies it to /verif/seeded/<name>/.
SRC="$1"; NAME="$2"; shift 2
W=${SEEDW:-/tmp/vpl-seedcheck}
[ -d $W ] || git -C /repo worktree add -q --detach $W HEAD
git -C $W reset -q --hard "$(git -C /repo rev-parse HEAD)"; git -C $W clean -qfd
echo "--- demo on unchanged tree"; PYTHONPATH=$W /venv/bin/python -B "$SRC/out/demo.py" >/tmp/seed_demo0_$NAME.txt 2>&1; d0=$?; echo "exit $d0"
git -C $W apply "$SRC/out/patch.diff" || { echo "PATCH DOES NOT APPLY"; exit 9; }
echo "--- tests with change"; t=$(cd $W && PYTHONPATH=$W /venv/bin/python -B -m pytest -q -p no:cacheprovider --timeout=900 2>&1 | tail -1); echo "$t"
echo "--- demo on changed tree"; PYTHONPATH=$W /venv/bin/python -B "$SRC/out/demo.py" >/tmp/seed_demo1_$NAME.txt 2>&1; d1=$?; echo "exit $d1"; tail -3 /tmp/seed_demo1_$NAME.txt | cut -c1-300
ok=1; [ $d0 -eq 0 ] || ok=0; [ $d1 -ne 0 ] || ok=0; echo "$t" | grep -q "286 passed" || ok=0
echo "CONFIRMED=$ok"
for c in "$@"; do
  out=$(VERIF_EVIDENCE_DIR=/tmp/vpl-mut-evidence VERIF_REPO=$W /verif/check $c ${TIER:-quick} 2>&1); rc=$?
  echo "== $NAME $c rc=$rc :: $(echo "$out" | grep -m1 -A1 'VIOLATION\|INCONCLUSIVE' | tr '\n' ' ' | cut -c1-500)"
done
if [ $ok -eq 1 ]; then
  mkdir -p /verif/seeded/$NAME; cp "$SRC/out/patch.diff" /verif/seeded/$NAME/patch.diff; cp "$SRC/out/demo.py" /verif/seeded/$NAME/demo.py
  [ -f "$SRC/out/notes.txt" ] && cp "$SRC/out/notes.txt" /verif/seeded/$NAME/notes.txt
fi
git -C $W reset -q --hard; git -C $W clean -qfd
