#!/bin/bash
# Re-applies every kept seeded change (seeded/<id>/patch.diff) to a scratch worktree of /repo HEAD (never /repo) and runs
# the quick tier of its property's check on it.  Prints one line per seed: CAUGHT / MISSED / NOAPPLY.
# usage: tools/seeds_regress.sh [seed ids...]     summary -> notes/seeds_regress.txt
cd "$(dirname "$0")/.."
W=/tmp/vpl-seedreg
[ -d $W ] || git -C /repo worktree add -q --detach $W HEAD
IDS="${@:-$(ls seeded)}"
out=notes/seeds_regress.txt; : > $out
for id in $IDS; do
  git -C $W reset -q --hard "$(git -C /repo rev-parse HEAD)"; git -C $W clean -qfd
  if ! git -C $W apply /verif/seeded/$id/patch.diff 2>/dev/null; then
    if ! git -C $W apply --3way /verif/seeded/$id/patch.diff >/dev/null 2>&1; then echo "$id NOAPPLY" | tee -a $out; continue; fi
  fi
  c=${id%%-*}
  o=$(VERIF_EVIDENCE_DIR=/tmp/vpl-seedreg-evidence VERIF_REPO=$W ./check $c quick 2>&1); rc=$?
  if [ $rc -eq 1 ]; then echo "$id CAUGHT by $c" | tee -a $out; else echo "$id MISSED by $c (rc=$rc)" | tee -a $out; fi
done
git -C $W reset -q --hard; git -C /repo worktree remove --force $W
