#!/bin/bash
# run every built check in the thorough tier, one after the other; print a one-line summary each
cd "$(dirname "$0")/.."
for c in ${CHECKS:-C20 C11 C02 C01 C05 C06 C07 C14 C17 C18 C19 C15 C10 C09 C04 C13 C08 C12 C16 C03}; do
  [ -f vpl/checks/$(echo $c | tr A-Z a-z).py ] || continue
  start=$(date +%s)
  out=$(VERIF_SEED=${VERIF_SEED:-0} ./check $c ${TIER:-thorough} 2>&1); rc=$?
  echo "=== $c rc=$rc $(( $(date +%s) - start ))s :: $(echo "$out" | head -1)"
  echo "$out" | grep -A2 "VIOLATION\|INCONCLUSIVE\|KNOWN-FINDING" | cut -c1-700 | head -20
done
