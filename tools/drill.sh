#!/bin/bash
# usage: tools/drill.sh <revert:COMMIT | patch:FILE | sed:FILE:EXPR> <check ids...>
# Applies a mutation to a scratch worktree of /repo (never /repo itself) and runs the quick checks on it.
MUT=/tmp/vpl-mut
spec="$1"; shift
if [ ! -d $MUT ]; then git -C /repo worktree add -q --detach $MUT HEAD; fi
git -C $MUT reset -q --hard "$(git -C /repo rev-parse HEAD)"
case "$spec" in
  revert:*) git -C $MUT revert --no-commit "${spec#revert:}" || exit 9 ;;
  patch:*) git -C $MUT apply "${spec#patch:}" || exit 9 ;;
  sed:*) rest="${spec#sed:}"; f="${rest%%:*}"; e="${rest#*:}"; sed -i -E "$e" "$MUT/$f" || exit 9; git -C $MUT diff --stat | tail -1 ;;
esac
for c in "$@"; do
  out=$(VERIF_EVIDENCE_DIR=/tmp/vpl-mut-evidence VERIF_REPO=$MUT /verif/check $c ${TIER:-quick} 2>&1); rc=$?
  echo "== $spec $c rc=$rc :: $(echo "$out" | grep -m1 -A1 'VIOLATION\|INCONCLUSIVE' | tr '\n' ' ' | cut -c1-400)"
done
git -C $MUT reset -q --hard
