#!/usr/bin/env python3
"""Summarise notes/reach/<Cxx>.txt: per anchor file, the functions never entered and those partly executed."""
import ast, re, sys, os


def ranges(spec):
    out = set()
    for part in spec.split(','):
        part = part.strip()
        if not part or '->' in part:
            continue
        if '-' in part:
            a, b = part.split('-')
            out.update(range(int(a), int(b) + 1))
        else:
            out.add(int(part))
    return out


def funcs(path):
    tree = ast.parse(open(path).read())
    res = []

    def walk(node, prefix):
        for ch in ast.iter_child_nodes(node):
            if isinstance(ch, (ast.FunctionDef, ast.AsyncFunctionDef)):
                body = [s for s in ch.body if not (isinstance(s, ast.Expr) and isinstance(getattr(s, 'value', None), ast.Constant))]
                lines = set()
                for s in body:
                    for n in ast.walk(s):
                        if hasattr(n, 'lineno') and isinstance(n, ast.stmt):
                            lines.add(n.lineno)
                res.append((prefix + ch.name, ch.lineno, lines))
                walk(ch, prefix + ch.name + '.')
            elif isinstance(ch, ast.ClassDef):
                walk(ch, prefix + ch.name + '.')
    walk(tree, '')
    return res


for f in sys.argv[1:]:
    print('==', os.path.basename(f))
    for line in open(f):
        m = re.match(r'(/repo/\S+\.py)\s+\d+\s+\d+\s+\d+%\s+(.*)', line)
        if not m:
            continue
        path, miss = m.group(1), ranges(m.group(2))
        never, partly = [], []
        for name, ln, lines in funcs(path):
            if not lines:
                continue
            mm = lines & miss
            if mm == lines:
                never.append(name)
            elif mm:
                partly.append('%s(%d/%d)' % (name, len(mm), len(lines)))
        print(' ', path.replace('/repo/pylatexenc/', ''))
        print('    never:', ' '.join(never))
        print('    partly:', ' '.join(partly))
