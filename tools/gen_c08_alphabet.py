#!/venv/bin/python
"""Build-time tool: compute the invertible alphabet of C08 on the current (repaired) tree and freeze it in
data/c08_alphabet.json together with the excluded characters and the class of every character.
The check itself never regenerates this file: the frozen list is the regression oracle."""
import sys, os, json, unicodedata, logging, warnings, re
ROOT = os.path.dirname(os.path.dirname(os.path.abspath(__file__)))
sys.path[:0] = ['/repo', ROOT]
logging.disable(logging.CRITICAL); warnings.simplefilter('ignore')
from pylatexenc.latexencode import UnicodeToLatexEncoder, get_builtin_uni2latex_dict
from pylatexenc.latex2text import LatexNodes2Text

D = dict(get_builtin_uni2latex_dict())
SCHEMES = ['braces', 'braces-all', 'braces-almost-all', 'braces-after-macro']
encs = {sc: UnicodeToLatexEncoder(replacement_latex_protection=sc, unknown_char_warning=False) for sc in SCHEMES}
l2ts = {'default': LatexNodes2Text(), 'strict': LatexNodes2Text(strict_latex_spaces=True)}


def rt(s, sc, pol):
    out = encs[sc].unicode_to_latex(s)
    try:
        return l2ts[pol].latex_to_text(out, tolerant_parsing=False)
    except Exception as e:
        return 'EXC:' + type(e).__name__


def klass(ch):
    if ord(ch) not in D:
        if ch.isalpha():
            return 'ascii-letter'
        if ch.isdigit():
            return 'ascii-digit'
        if ch == ' ':
            return 'space'
        if ch == '\n':
            return 'newline'
        return 'ascii-punct'
    v = D[ord(ch)]
    if v.startswith('\\ensuremath'):
        return 'ensuremath'
    if re.fullmatch(r'\\[{}]', v):
        return 'brace-escape'
    if re.fullmatch(r'\\[^A-Za-z]', v):
        return 'control-symbol'
    if re.fullmatch(r'\\[^A-Za-z] ?\{?\\?[A-Za-z]+\}?', v) or re.fullmatch(r'\\[A-Za-z]\{\\?[A-Za-z]+\}', v) \
            or re.fullmatch(r'\\[A-Za-z] \\?[A-Za-z]', v):
        return 'accent+letter'
    if re.search(r'\\[A-Za-z]+$', v):
        return 'control-word-ending'
    return 'other-macro-form'


inv, excl = [], []
for cp in sorted(D):
    ch = chr(cp)
    if cp < 128:
        continue
    if unicodedata.normalize('NFC', ch) != ch:
        excl.append({'cp': cp, 'latex': D[cp], 'why': 'not NFC-stable'})
        continue
    bad = None
    for sc in SCHEMES:
        for pol in l2ts:
            for s in (ch, 'a' + ch + 'b', ch + ch, ch + ' ' + ch, '(' + ch + ')'):
                back = rt(s, sc, pol)
                if back != s:
                    bad = (sc, pol, s, back)
                    break
            if bad:
                break
        if bad:
            break
    if bad:
        back = bad[3]
        single = rt(ch, 'braces', 'default')
        if single != ch:
            why = 'many-to-one or approximate encoding: converts back to %r' % single
        else:
            why = 'does not survive neighbours: %r -> %r (%s, %s)' % (bad[2], back, bad[0], bad[1])
        excl.append({'cp': cp, 'latex': D[cp], 'why': why})
    else:
        inv.append(cp)
ascii_ok, ascii_excl = [], []
for c in range(32, 127):
    ch = chr(c)
    ok = all(rt(s, sc, pol) == s for sc in SCHEMES for pol in l2ts for s in (ch, 'a' + ch + 'b', ch + 'x' + ch))
    (ascii_ok if ok else ascii_excl).append(c)
data = {
    'comment': 'frozen by tools/gen_c08_alphabet.py on the repaired tree; regression oracle for C08',
    'invertible': inv,
    'ascii': ascii_ok + [10],
    'ascii_excluded': [{'cp': c, 'why': 'printable ASCII that does not round-trip alone or between letters: %r -> %r'
                        % (chr(c), rt('a' + chr(c) + 'b', 'braces', 'default'))} for c in ascii_excl],
    'excluded': excl,
    'classes': {str(cp): klass(chr(cp)) for cp in inv + ascii_ok + [10]},
    'forbidden_sequences': ['--', '``', "''", '!`', '?`', '\n\n\n', '\n \n', '\n\t\n'],
}
json.dump(data, open(os.path.join(ROOT, 'data', 'c08_alphabet.json'), 'w'), indent=0, ensure_ascii=True)
import collections
print('invertible', len(inv), 'excluded', len(excl), 'ascii ok', len(ascii_ok), 'ascii excluded', [chr(c) for c in ascii_excl])
print(collections.Counter(data['classes'].values()))
print(collections.Counter(e['why'].split(':')[0] for e in excl))
