#!/bin/bash
# Argument-reach diagnostic (not a check): runs the quick tier of the given checks with a profile hook that records,
# for every function of the library, which value classes each parameter took; prints, for the property's anchor files,
# the parameters (incl. **kwargs keys) that were only ever seen with a single value.
# usage: tools/argreach.sh [Cxx ...]      output: /verif/notes/reach/<Cxx>.args.txt
cd "$(dirname "$0")/.."
CH="${@:-C01 C02 C03 C04 C05 C06 C07 C08 C09 C10 C11 C12 C13 C14 C15 C16 C17 C18 C19 C20}"
mkdir -p notes/reach
for c in $CH; do
  D=/tmp/vpl-argreach/$c; rm -rf $D; mkdir -p $D
  VERIF_ARGREACH=$D VERIF_EVIDENCE_DIR=/tmp/vpl-argreach/evidence ./check $c ${TIER:-quick} > $D/out.txt 2>&1
  /venv/bin/python - "$c" "$D" > notes/reach/$c.args.txt <<'PY'
import json, sys, glob, os
pid, D = sys.argv[1:]
anchors = []
for l in open('/verif/properties.jsonl'):
    d = json.loads(l)
    if d['id'] == pid:
        anchors = [f.replace('pylatexenc/', '') for f in d['anchors']['files'] if f.endswith('.py')]
seen = {}
for f in glob.glob(os.path.join(D, '*.json')):
    for k, dd in json.load(open(f)).items():
        t = seen.setdefault(k, {})
        for a, v in dd.items():
            t.setdefault(a, set()).update(v)
for k in sorted(seen):
    fn = k.split(':')[0]
    if fn not in anchors:
        continue
    single = ['%s=%s' % (a, next(iter(v))) for a, v in sorted(seen[k].items()) if len(v) == 1]
    multi = ['%s{%d}' % (a, len(v)) for a, v in sorted(seen[k].items()) if len(v) > 1]
    if single:
        print(k, '| single:', ', '.join(single), '| varied:', ' '.join(multi))
PY
  head -1 $D/out.txt | cut -c1-120; wc -l notes/reach/$c.args.txt
  rm -rf $D
done
