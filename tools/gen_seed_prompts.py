#!/usr/bin/env python3
"""Write the task text for a round of independent property-breaking changes: /tmp/seedprompts/<Cxx>-<round>.txt.
Each text contains the property (title, statement, quantifier, anchor files) and, from round 2 on, one line per earlier
change for that property (what it needed to manifest, files touched) -- nothing else from /verif."""
import json, os, re, sys

rnd = int(sys.argv[1])
root = os.path.dirname(os.path.dirname(os.path.abspath(__file__)))
os.makedirs('/tmp/seedprompts', exist_ok=True)
ORD = {2: 'SECOND', 3: 'THIRD', 4: 'FOURTH', 5: 'FIFTH', 6: 'SIXTH'}
for line in open(os.path.join(root, 'properties.jsonl')):
    d = json.loads(line)
    pid = d['id']
    W = '/tmp/seed%d-%s' % (rnd, pid)
    earlier = []
    for name in sorted(os.listdir(os.path.join(root, 'seeded'))):
        if not name.startswith(pid + '-'):
            continue
        meta = json.load(open(os.path.join(root, 'seeded', name, 'meta.json')))
        files = sorted(set(re.findall(r'^\+\+\+ b/(\S+)', open(os.path.join(root, 'seeded', name, 'patch.diff')).read(), re.M)))
        earlier.append('  * %s  [touched: %s]' % (meta['needs_to_manifest'], ', '.join(files)))
    t = """You are helping to evaluate a verification harness by producing a *seeded defect* for the Python library pylatexenc (a pure-Python LaTeX parser with LaTeX-to-text and Unicode-to-LaTeX conversion).

You have your own scratch git worktree of the library at {W} (a checkout of the library's current HEAD; the package is the directory {W}/pylatexenc, tests are in {W}/test). Work ONLY inside {W}. Do not read or touch /verif or /repo (anything there is off limits), and do not use the network.

THE PROPERTY the library is supposed to satisfy:

  Title: {title}
  Statement: {statement}
  Quantified over: {quant}
  Code anchors (where the behaviour lives): {anchors}

YOUR TASK: make a small, realistic change to the library source under {W}/pylatexenc (the kind of bug a maintainer could plausibly introduce in a refactoring or a feature commit: an off-by-one, a wrong condition, a dropped branch, state kept in the wrong place, a wrong table entry, a missed case) such that

  1. the library still imports and the existing test suite still passes completely:
        cd {W} && PYTHONPATH={W} /venv/bin/python -B -m pytest -q -p no:cacheprovider --timeout=900
     (286 tests must pass; run it and confirm),
  2. the property above is violated by the changed library,
  3. the violation needs something SPECIFIC to manifest -- an unusual input, a particular combination of options, a multi-step sequence of calls, a particular adjacency of constructs, or two cooperating code sites that each look fine alone -- i.e. NOT something the most ordinary use would expose at once.

DELIVERABLES (create the directory {W}/out):
  * {W}/out/patch.diff  -- output of `git -C {W} diff` restricted to the pylatexenc/ directory (the change only; do not commit),
  * {W}/out/demo.py -- a small standalone program that exits with status 1 (printing what went wrong) when run against the CHANGED library and exits 0 against the unchanged library. It must be runnable as
        PYTHONPATH=<library root> /venv/bin/python -B {W}/out/demo.py
     Verify both directions yourself. To test the unchanged library make a pristine copy inside your own directory (`mkdir {W}/pristine && git -C {W} archive HEAD | tar -x -C {W}/pristine`, then PYTHONPATH={W}/pristine) and delete it afterwards; do NOT use `git stash` (the stash is shared with other worktrees of the same repository),
  * {W}/out/notes.txt -- 5-10 lines: what you changed, why it breaks the property, and exactly what is needed for it to manifest.

Leave the working tree with your change applied (uncommitted). Keep the change minimal (ideally 1-10 lines). Finish by printing the contents of notes.txt and the patch.
""".format(W=W, title=d['title'], statement=d['statement'], quant=d['quantifier']['text'],
           anchors=', '.join(d['anchors']['files']))
    if earlier:
        t += """

IMPORTANT - THIS IS A %s ROUND.  %d earlier changes for this property already exist; produce one that is DIFFERENT from all of them:
%s
Pick a different mechanism, a different code site (a different function; a different file if at all possible) and a different
kind of trigger.  Re-read the property statement and its quantifier clause by clause and aim at a clause, configuration,
option value, entry point, public class or input class that none of the earlier changes exercised (look at what else the
anchor files and the public API export that relates to the property).  Subtle is better than loud: prefer a change whose
effect shows only for a narrow, but legitimate, class of inputs or call sequences.
""" % (ORD.get(rnd, '%dth' % rnd), len(earlier), '\n'.join(earlier))
    open('/tmp/seedprompts/%s-%d.txt' % (pid, rnd), 'w').write(t)
print('written round', rnd)
