"""helper used once at build time: apply (file, old, new) replacements to /repo"""
import sys, json
def rep(path, old, new, count=1):
    p = '/repo/' + path
    s = open(p, encoding='utf-8').read()
    assert s.count(old) == count, (path, s.count(old), old)
    s = s.replace(old, new)
    open(p, 'w', encoding='utf-8').write(s)
