#!/usr/bin/env python3
"""Regenerate the table of seeded changes in DESIGN.md (between the markers) from seeded/*/meta.json."""
import json, os
ROOT = os.path.dirname(os.path.dirname(os.path.abspath(__file__)))
rows = []
stats = {}
for name in sorted(os.listdir(os.path.join(ROOT, 'seeded'))):
    mp = os.path.join(ROOT, 'seeded', name, 'meta.json')
    if not os.path.exists(mp):
        continue
    m = json.load(open(mp))
    stats[m['status']] = stats.get(m['status'], 0) + 1
    rows.append('| `%s` | %s | %s | %s |' % (name, m['property'], m['needs_to_manifest'].replace('|', '\\|'),
                                            m['detected_by'].replace('|', '\\|')))
table = '| id | property | what it needs to manifest | caught by |\n|---|---|---|---|\n' + '\n'.join(rows)
p = os.path.join(ROOT, 'DESIGN.md')
s = open(p).read()
a, b = '<!-- SEEDS-BEGIN -->', '<!-- SEEDS-END -->'
if a in s:
    s = s[:s.index(a) + len(a)] + '\n' + table + '\n' + s[s.index(b):]
    open(p, 'w').write(s)
print(len(rows), 'seeds', stats)
