#!/venv/bin/python
"""Regenerate MANIFEST.json from the metadata of the check modules (vpl/checks/cXX.py)."""
import sys, os, json, importlib, glob
ROOT = os.path.dirname(os.path.dirname(os.path.abspath(__file__)))
sys.path[:0] = ['/repo', os.path.join(ROOT, '.deps'), ROOT]
import logging; logging.disable(logging.CRITICAL)

props = [json.loads(l) for l in open(os.path.join(ROOT, 'properties.jsonl'))]
checks = []
na = []
NOT_BUILT = {}
for p in props:
    pid = p['id']
    path = os.path.join(ROOT, 'vpl', 'checks', pid.lower() + '.py')
    if not os.path.exists(path):
        na.append({'property_id': pid, 'reason': 'check not built yet in this round (planned, see DESIGN.md section 4)'})
        continue
    m = importlib.import_module('vpl.checks.' + pid.lower())
    checks.append({
        'property_id': pid,
        'quick_cmd': './check %s quick' % pid,
        'thorough_cmd': './check %s thorough' % pid,
        'evidence_file': 'evidence/%s.json' % pid,
        'replay_cmd_template': './check %s quick --replay {path}' % pid,
        'engine': 'vpl',
        'level_claimed': {
            'category': m.LEVEL,
            'text': m.LEVEL_TEXT,
            'design_ref': 'DESIGN.md section 4, ' + pid,
        },
        'level_note': m.LEVEL_NOTE,
        'technique': m.TECHNIQUE,
    })
hooks_commits = []
man = {
    'version': 1,
    'setup_cmd': './setup.sh',
    'hooks': {
        'guard': 'PYLATEXENC_VERIF',
        'enable': 'no source hooks are needed: all monitors (contracts, step budgets, audit hooks, '
                  'reference models) attach from the harness to the real classes of /repo at import time; '
                  'the guard variable is reserved and unused',
        'baseline_off_cmd': 'cd /repo && /venv/bin/python -m pytest -ra -q -p no:cacheprovider --timeout=900 --continue-on-collection-errors',
        'source_commits': hooks_commits,
        'add_only': True,
    },
    'engines': [{
        'name': 'vpl',
        'path': 'vpl/',
        'serves_properties': [c['property_id'] for c in checks],
        'kind_free_text': 'runtime monitoring: the real pylatexenc code from /repo is driven in fresh '
                          'interpreter processes with bounded-exhaustive, grammar-generated, fault-injected '
                          'and random workloads while oracles (reference models, contracts on the real '
                          'methods, step budgets, audit hooks, differential executions) observe every execution',
    }],
    'checks': checks,
    'notes': 'Exit codes of every check: 0 held on everything explored (KNOWN-FINDING lines possible), '
             '1 with a VIOLATION line, 2 inconclusive (a deciding monitor observed too little, a shard died '
             'or the wall-clock watchdog fired) - inconclusive is never folded into held. '
             'Known findings: KNOWN_FINDINGS.txt, matched by mechanism classifiers only.',
    'not_applicable': na,
}
json.dump(man, open(os.path.join(ROOT, 'MANIFEST.json'), 'w'), indent=1)
try:
    import jsonschema
    jsonschema.validate(man, json.load(open(os.path.join(ROOT, 'schemas', 'MANIFEST.schema.json'))))
    print('MANIFEST.json valid:', len(checks), 'checks,', len(na), 'not_applicable')
except ImportError:
    print('written (jsonschema not available)')
