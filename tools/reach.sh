#!/bin/bash
# Reach diagnostic (not a check): runs the quick tier of the given checks with line tracing of the library on,
# and prints, per check, the line coverage of the property's anchor files and the functions never entered.
# usage: tools/reach.sh [Cxx ...]      output: /verif/notes/reach/<Cxx>.txt
cd "$(dirname "$0")/.."
CH="${@:-C01 C02 C03 C04 C05 C06 C07 C08 C09 C10 C11 C12 C13 C14 C15 C16 C17 C18 C19 C20}"
mkdir -p notes/reach
for c in $CH; do
  D=/tmp/vpl-cov/$c; rm -rf $D; mkdir -p $D
  VERIF_COV=$D VERIF_EVIDENCE_DIR=/tmp/vpl-cov/evidence ./check $c ${TIER:-quick} > $D/out.txt 2>&1
  ( cd $D && /venv/bin/python -m coverage combine -q --data-file=$D/.coverage $D/$c.* >/dev/null 2>&1
    files=$(/venv/bin/python - "$c" <<'PY'
import json,sys
for l in open('/verif/properties.jsonl'):
    d=json.loads(l)
    if d['id']==sys.argv[1]:
        print(','.join('/repo/'+f for f in d['anchors']['files'] if f.endswith('.py')))
PY
)
    /venv/bin/python -m coverage report --data-file=$D/.coverage --include="$files" -m 2>&1 ) > notes/reach/$c.txt
  head -1 $D/out.txt | cut -c1-150; tail -1 notes/reach/$c.txt
  rm -rf $D
done
