#!/bin/bash
# Offline setup: put icontract + jsonschema beside the framework (git-ignored .deps).
# Idempotent and safe to call from concurrently started checks.
HERE="$(cd "$(dirname "${BASH_SOURCE[0]}")" && pwd)"
cd "$HERE" || exit 2
(
  flock 9
  if [ ! -f .deps/.ok ]; then
    rm -rf .deps
    if /venv/bin/pip install --quiet --no-index --find-links /opt/veriftools/wheels \
         --target "$HERE/.deps" icontract jsonschema ; then
      touch .deps/.ok
    else
      echo "setup: offline wheel install failed; checks fall back to built-in wrappers" >&2
      mkdir -p .deps
    fi
  fi
) 9>"$HERE/.setup.lock"
exit 0
