# prototype reference renderer for core sublanguage incl. whitespace policies (C03)
import sys, random, logging, warnings, collections, unicodedata
logging.disable(logging.CRITICAL); warnings.simplefilter('ignore')
from pylatexenc.latex2text import LatexNodes2Text
rng=random.Random(int(sys.argv[1]) if len(sys.argv)>1 else 0)
SYM={'alpha':'α','beta':'β','ldots':'…','ss':'ß','o':'ø','infty':'∞','to':'→','times':'×','leq':'≤','ae':'æ'}
CSYM={'&':'&','%':'%','$':'$','#':'#','_':'_','{':'{','}':'}'}
FMT=['textbf','emph','textit']
SPEC={'~':' ','--':'–','---':'—','``':'“',"''":'”','&':'   '}
ACC={"'":'́','`':'̀','^':'̂','"':'̈','~':'̃'}
POL={
 'macros':dict(mc=True,lc=True,ac=False,eq='bos'),
 'bos':dict(mc=False,lc=False,ac=False,eq=None),
 'eie':dict(mc=True,lc=True,ac=True,eq='bos'),
 'strict':dict(mc=True,lc=True,ac=True,eq='strict'),
}
POLARG={'macros':{}, 'bos':{'strict_latex_spaces':'based-on-source'}, 'eie':{'strict_latex_spaces':'except-in-equations'}, 'strict':{'strict_latex_spaces':True}}
def WS(par_ok=False): return rng.choice(['',' ','  ','\n',' \n ']) if rng.random()<.5 else ''
def text(): return ''.join(rng.choice('abcxyz12.,;') for _ in range(rng.randint(1,3)))
# items: ('T',s) ('W',ws) ('SYM',name) ('CS',ch) ('FMT',name,kind,content) kind in 'group','tok'  ('G',content) ('MATH',delims,content) ('C',txt,post) ('S',chars) ('P',ws) ('ACC',a,form,base) ('FRAC',a,b)
def gen_seq(depth,inmath):
    n=rng.randint(0,5 if depth<2 else 2); out=[]
    for _ in range(n):
        r=rng.random()
        if r<.3: it=('T',text())
        elif r<.42: it=('SYM',rng.choice(list(SYM)))
        elif r<.47: it=('CS',rng.choice(list(CSYM)))
        elif r<.57 and depth<3: it=('G',gen_seq(depth+1,inmath))
        elif r<.69 and depth<3:
            if rng.random()<.75: it=('FMT',rng.choice(FMT),'group',gen_seq(depth+1,inmath))
            else: it=('FMT',rng.choice(FMT),'tok',rng.choice('abc'))
        elif r<.77 and not inmath and depth<3: it=('MATH',rng.choice([('$','$'),('\\(','\\)'),('\\[','\\]'),('$$','$$')]),[('T',text())]+gen_seq(depth+1,True))
        elif r<.83: it=('C',rng.choice(['c','com x','']))
        elif r<.90: it=('S',rng.choice(list(SPEC)))
        elif r<.93 and depth==0: it=('P',)
        elif r<.97: it=('ACC',rng.choice(list(ACC)),rng.choice(['tok','group']),rng.choice('aeo'))
        else: it=('FRAC',[('T',text())],[('T',text())])
        out.append(it); out.append(('W',WS()))
    return out
class Redraw(Exception): pass
def render(seq):
    s=''
    for i,it in enumerate(seq):
        k=it[0]
        if k=='T':
            if s and s[-1].isalpha() and prev_cw(seq,i): raise Redraw()
            if s.endswith(('-','`',"'",'!','?')) and False: pass
            s+=it[1]
        elif k=='W': s+=it[1]
        elif k=='SYM': s+='\\'+it[1]
        elif k=='CS': s+='\\'+it[1]
        elif k=='G': s+='{'+render(it[1])+'}'
        elif k=='FMT':
            if it[2]=='group': s+='\\'+it[1]+'{'+render(it[3])+'}'
            else: s+='\\'+it[1]+' '+it[3]
        elif k=='MATH': s+=it[1][0]+render(it[2])+it[1][1]
        elif k=='C': s+='%'+it[1]+'\n'
        elif k=='S': s+=it[1]
        elif k=='P': s+='\n\n'
        elif k=='ACC': s+='\\'+it[1]+(it[3] if it[2]=='tok' else '{'+it[3]+'}')
        elif k=='FRAC': s+='\\frac{'+render(it[1])+'}{'+render(it[2])+'}'
    return s
def prev_cw(seq,i):
    # is previous non-empty item a control word directly adjacent?
    j=i-1
    while j>=0 and seq[j][0]=='W' and seq[j][1]=='': j-=1
    return j>=0 and seq[j][0]=='SYM'
def valid(seq):
    # adjacency constraints -> redraw
    flat=[x for x in seq if not (x[0]=='W' and x[1]=='')]
    for a,b in zip(flat,flat[1:]):
        if a[0]=='SYM' and b[0]=='T': return False          # \alpha b needs whitespace: handled as W between; direct adjacency illegal
        if a[0]=='S' and b[0]=='S': return False
        if a[0]=='S' and b[0]=='T' and b[1][0] in "-`'": return False
        if a[0]=='T' and b[0]=='S' and a[1][-1] in "-`'!?": return False
        if a[0]=='MATH' and b[0]=='MATH' and a[1][1].startswith('$') and b[1][0].startswith('$'): return False
        if a[0]=='C' and b[0]=='W' and '\n' in b[1]: return False   # would create par break
        if a[0]=='W' and '\n' in a[1] and b[0]=='W' and '\n' in b[1]: return False
        if a[0]=='P' and b[0]=='P': return False
        if a[0]=='W' and '\n' in a[1] and b[0]=='P': return False
        if a[0]=='P' and b[0]=='W' and '\n' in b[1]: return False
        if a[0]=='C' and b[0]=='P': pass
    for x in seq:
        for sub in (x[1:] if x[0] in('G','FMT','MATH','FRAC') else []):
            if isinstance(sub,list) and not valid(sub): return False
    if seq:
        # $ math content must not start/end with whitespace issues; ok
        pass
    return True
def model(seq,pol,inmath=False):
    P=POL[pol] if not inmath else ({'bos':POL['bos'],'strict':POL['strict'],None:POL[pol]}[POL[pol]['eq']])
    out=''
    items=[x for x in seq if not (x[0]=='W' and x[1]=='')]
    n=len(items); i=0
    prevkind=None  # 'T','BARE','OTHER','C', None(start)
    while i<n:
        it=items[i]; k=it[0]
        nxt=items[i+1] if i+1<n else None
        if k=='W':
            w=it[1]
            nk=nxt[0] if nxt else None
            if prevkind=='BARE':
                if nk=='T' and not P['mc']: out+=w
            elif prevkind=='C':
                pass # belongs to comment post space: handled there
            elif nk=='T' or prevkind=='T':
                out+=w
            else:
                if P['lc']: out+=w
            i+=1; continue
        if k=='T': out+=it[1]; prevkind='T'
        elif k=='SYM': out+=SYM[it[1]]; prevkind='BARE'
        elif k=='CS': out+=CSYM[it[1]]; prevkind='OTHER'   # control symbol: no post space; bare but post_space ''
        elif k=='G': out+=model(it[1],pol,inmath); prevkind='OTHER'
        elif k=='FMT':
            out+= model(it[3],pol,inmath) if it[2]=='group' else it[3]; prevkind='OTHER'
        elif k=='ACC': out+=unicodedata.normalize('NFC',it[3]+ACC[it[1]]); prevkind='OTHER'
        elif k=='FRAC': out+=model(it[1],pol,inmath)+'/'+model(it[2],pol,inmath); prevkind='OTHER'
        elif k=='MATH':
            c=model(it[2],pol,True).strip()
            out+= c if it[1][0] in('$','\\(') else '\n    '+c.replace('\n','\n    ')+'\n'
            prevkind='OTHER'
        elif k=='S': out+=SPEC[it[1]]; prevkind='OTHER'
        elif k=='P': out+='\n\n'; prevkind='OTHER'
        elif k=='C':
            post='\n'
            if nxt and nxt[0]=='W': post+=nxt[1]; i+=1
            if nxt and nxt[0]=='P': post=''   # \n + \n\n => paragraph: comment post space empty
            if i+1<n and items[i+1][0]=='P' and nxt and nxt[0]=='W': post=''  # ws then par
            if not P['ac']: out+=post
            prevkind='OTHER'
        i+=1
    return out
fails=collections.defaultdict(list); st=collections.Counter()
for itn in range(int(sys.argv[2]) if len(sys.argv)>2 else 3000):
    seq=gen_seq(0,False)
    if not valid(seq): st['redraw']+=1; continue
    try: s=render(seq)
    except Redraw: st['redraw']+=1; continue
    if '\n\n\n' in s or '%' in s and False: pass
    for pol in POL:
        try: got=LatexNodes2Text(**POLARG[pol]).latex_to_text(s,tolerant_parsing=False)
        except Exception as e: fails['exc:'+type(e).__name__].append((s,)); continue
        exp=model(seq,pol)
        st['cmp']+=1
        if got!=exp: fails[pol].append((s,exp,got))
print(st)
for k,v in fails.items():
    print(k,len(v))
    for x in sorted(v,key=lambda t:len(t[0]))[:6]: print('   ',x)
