import logging, warnings
logging.disable(logging.CRITICAL); warnings.simplefilter('ignore')
from pylatexenc.macrospec import MacroSpec, EnvironmentSpec, LatexContextDb, std_macro, std_environment, MacroStandardArgsParser
from pylatexenc.latexwalker import LatexWalker
from pylatexenc.latexnodes.parsers import LatexGeneralNodesParser
def dump(n):
    from pylatexenc.latexnodes import nodes as N
    if n is None: return None
    if isinstance(n, N.LatexNodeList): return [dump(x) for x in n]
    t=type(n).__name__
    d=[t, n.pos, n.pos_end]
    if t=='LatexCharsNode': d.append(n.chars)
    if t=='LatexGroupNode': d+= [n.delimiters, dump(n.nodelist)]
    if t=='LatexMacroNode': d+= [n.macroname, [dump(a) for a in n.nodeargd.argnlist] if n.nodeargd else None]
    if t=='LatexEnvironmentNode': d+= [n.environmentname, [dump(a) for a in n.nodeargd.argnlist] if n.nodeargd else None, dump(n.nodelist)]
    return d
s = r'\foo*[o]{a}{b} x \begin{E}[q]{r} body \end{E}'
for argspec in ['{', '[{', '*[{{', '*', '{{']:
    res = {}
    for name, mk in [
        ('new', lambda: (MacroSpec('foo', argspec), EnvironmentSpec('E', argspec))),
        ('args_parser=str', lambda: (MacroSpec('foo', args_parser=argspec), EnvironmentSpec('E', args_parser=argspec))),
        ('args_parser=MSAP', lambda: (MacroSpec('foo', args_parser=MacroStandardArgsParser(argspec)), EnvironmentSpec('E', args_parser=MacroStandardArgsParser(argspec)))),
        ('positional MSAP', lambda: (MacroSpec('foo', MacroStandardArgsParser(argspec)), EnvironmentSpec('E', MacroStandardArgsParser(argspec)))),
        ('std_macro', lambda: (std_macro('foo', argspec), std_environment('E', argspec))),
        ('std_macro tuple', lambda: (std_macro(('foo', argspec)), std_environment(('E', argspec)))),
        ('std_macro None', lambda: (std_macro('foo', None, argspec), std_environment('E', None, argspec))),
    ]:
        m, e = mk()
        db = LatexContextDb(); db.add_context_category('x', macros=[m], environments=[e])
        try:
            w = LatexWalker(s, latex_context=db, tolerant_parsing=False)
            nl, _ = w.parse_content(LatexGeneralNodesParser())
            res[name] = dump(nl)
        except Exception as ex:
            res[name] = 'EXC %s %s' % (type(ex).__name__, str(ex)[:60])
    ref = res['new']
    for k, v in res.items():
        print(argspec, k, 'SAME' if v == ref else 'DIFF')
        if v != ref: print('    ref', ref); print('    got', v)
