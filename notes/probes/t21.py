import logging, warnings
logging.disable(logging.CRITICAL); warnings.simplefilter('ignore')
from pylatexenc.latexwalker import LatexWalker
from pylatexenc.macrospec import LatexContextDb, MacroSpec
from pylatexenc.latexnodes import LatexArgumentSpec
from pylatexenc.latexnodes.parsers import LatexGeneralNodesParser
db=LatexContextDb()
db.add_context_category('c',macros=[MacroSpec('st',[LatexArgumentSpec('*')]), MacroSpec('ss',[LatexArgumentSpec('s')]), MacroSpec('tp',[LatexArgumentSpec('t+')]),
   MacroSpec('vr',[LatexArgumentSpec('v'),LatexArgumentSpec('r()')]), MacroSpec('mr',[LatexArgumentSpec('m'),LatexArgumentSpec('r()')]),
   MacroSpec('tr',[LatexArgumentSpec('t+'),LatexArgumentSpec('r()')]), MacroSpec('r',[LatexArgumentSpec('r()')]), MacroSpec('d',[LatexArgumentSpec('d<>')]), MacroSpec('o',[LatexArgumentSpec('o')])])
for s in ['\\st*', '\\st* ', '\\st*a', '\\ss*', '\\tp+', '\\tp+x', '{\\st*}', '\\section*', '\\vr{}(a)', '\\vr|x|(a)', '\\vr+a+(b)', '\\mr{}(a)', '\\tr+(a)', '\\tr(a)','\\r(\n\n)','\\r(a(b)c)','\\r({)})','\\d<a<b>c>','\\o[a[b]c]','\\o[{]}]', '\\r (a)', '\\r%c\n(a)', '\\o [a]', '\\o\n[a]','\\o\n\n[a]']:
    for ctx in (db, None):
        if ctx is None and 'section' not in s: continue
        try:
            w=LatexWalker(s,latex_context=ctx,tolerant_parsing=False); nl,_=w.parse_content(LatexGeneralNodesParser())
            n=nl[0]
            print(repr(s),'->',[ (None if a is None else (type(a).__name__, a.latex_verbatim() if hasattr(a,'latex_verbatim') else a)) for a in n.nodeargd.argnlist], 'rest:', [x.latex_verbatim() for x in nl[1:]])
        except Exception as e:
            print(repr(s),'EXC',type(e).__name__,str(e)[:80])
