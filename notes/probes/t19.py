import sys, logging, collections, random, itertools, warnings
logging.disable(logging.CRITICAL); warnings.simplefilter('ignore')
from pylatexenc.latexwalker import LatexWalker, get_default_latex_context_db as wdb
from pylatexenc.latexnodes import LatexWalkerParseError, nodes as N
from pylatexenc.latexnodes.parsers import LatexGeneralNodesParser
W=wdb()
mathenvs={e.environmentname for e in W.iter_environment_specs() if getattr(e,'is_math_mode',False)}
textmacros={'mbox','textrm','textit','textbf','textmd','textsc','textsf','textsl','texttt','textup','text'}
fails=collections.defaultdict(list)
INL={'$':'$','\\(':'\\)'}; DSP={'$$':'$$','\\[':'\\]'}
def chk(s,n,mode,delim):
    ps=n.parsing_state
    if bool(ps.in_math_mode)!=mode: return 'mode %s at %d: got %r want %r'%(type(n).__name__,n.pos,ps.in_math_mode,mode)
    if mode and ps.math_mode_delimiter!=delim: return 'delim %s at %d: got %r want %r'%(type(n).__name__,n.pos,ps.math_mode_delimiter,delim)
    if not mode and ps.math_mode_delimiter is not None: return 'delim-in-text'
    if n.isNodeType(N.LatexMathNode):
        o,c=n.delimiters
        if s[n.pos:n.pos+len(o)]!=o or s[n.pos_end-len(c):n.pos_end]!=c: return 'mathdelims-src %r'%(n.delimiters,)
        if o in INL and (n.displaytype!='inline' or INL[o]!=c): return 'displaytype'
        if o in DSP and (n.displaytype!='display' or DSP[o]!=c): return 'displaytype'
        for x in n.nodelist:
            r=chk(s,x,True,o)
            if r: return r
        return None
    args=[]
    na=getattr(n,'nodeargd',None)
    if na is not None and na.argnlist: args=[a for a in na.argnlist]
    for a in args:
        if a is None: continue
        m,d=mode,delim
        if n.isNodeType(N.LatexMacroNode):
            if n.macroname in textmacros: m,d=False,None
            elif n.macroname=='ensuremath': m,d=True,None
        items = a.nodelist if isinstance(a,N.LatexNodeList) else [a]
        for x in items:
            if x is None: continue
            r=chk(s,x,m,d)
            if r: return r
    nl=getattr(n,'nodelist',None)
    if nl is not None and not n.isNodeType(N.LatexMathNode):
        m,d=mode,delim
        if n.isNodeType(N.LatexEnvironmentNode) and n.environmentname in mathenvs: m,d=True,None
        for x in nl:
            if x is None: continue
            r=chk(s,x,m,d)
            if r: return r
    return None
rng=random.Random(int(sys.argv[1]) if len(sys.argv)>1 else 0)
cases=[]
small=['$','a','{','}',' ','\\(','\\)','\\[','\\]']
for L in range(0,7):
    for t in itertools.product(small,repeat=L): cases.append(''.join(t))
atoms=small+['$$','\\text{','\\textbf{','\\ensuremath{','\\mbox{','\\begin{align}','\\end{align}','\\begin{equation}','\\end{equation}','\\begin{itemize}','\\end{itemize}','\\frac','\\alpha ','x','\\item ','[',']','\\sqrt[','\\begin{array}{c}','\\end{array}','%c\n','\n\n','&','\\\\']
for i in range(int(sys.argv[2]) if len(sys.argv)>2 else 20000):
    cases.append(''.join(rng.choice(atoms) for _ in range(rng.randint(1,10))))
st=collections.Counter()
for s in cases:
    try:
        w=LatexWalker(s,tolerant_parsing=False); nl,_=w.parse_content(LatexGeneralNodesParser())
    except LatexWalkerParseError: st['rej']+=1; continue
    except Exception as e: fails['EXC'+type(e).__name__].append(s); continue
    st['ok']+=1
    for n in nl:
        r=chk(s,n,False,None)
        if r: fails[r.split(' ')[0]].append((s,r)); break
print(len(cases),st)
for k,v in fails.items():
    print(k,len(v))
    for x in sorted(v,key=lambda t:len(t[0]))[:5]: print('   ',x)
