import logging, warnings
logging.disable(logging.CRITICAL); warnings.simplefilter('ignore')
from pylatexenc.macrospec import MacroSpec, EnvironmentSpec, LatexContextDb, SpecialsSpec
from pylatexenc.latexnodes import LatexArgumentSpec
from pylatexenc.latexwalker import LatexWalker
from pylatexenc.latexnodes.parsers import LatexGeneralNodesParser
from pylatexenc.latexnodes import nodes as N
def dump(n):
    if n is None: return None
    if isinstance(n, N.LatexNodeList): return [dump(x) for x in n]
    if isinstance(n, list): return [dump(x) for x in n]
    t=type(n).__name__
    d=[t, n.pos, n.pos_end]
    if t=='LatexCharsNode': d.append(n.chars)
    if t=='LatexGroupNode': d+= [n.delimiters, dump(n.nodelist)]
    if t=='LatexMacroNode': d+= [n.macroname, [dump(a) for a in n.nodeargd.argnlist] if n.nodeargd else None]
    if t=='LatexEnvironmentNode': d+= [n.environmentname, [dump(a) for a in n.nodeargd.argnlist] if n.nodeargd else None, dump(n.nodelist)]
    if t=='LatexMathNode': d+= [n.delimiters, dump(n.nodelist)]
    return d
db = LatexContextDb()
db.add_context_category('x', macros=[MacroSpec('vv', 'v'), MacroSpec('m', 'm'), MacroSpec('oo','o'), MacroSpec('ss','s'), MacroSpec('tt','t+'), MacroSpec('rr','r()'), MacroSpec('dd','d<>'), MacroSpec('vb','v[]')])
docs = [r'\vv{a{b}c} x', r'\vv{a{b', r'\vv{x}y', r'\vv|a|b', r'\vv{a{b}c} x', r'\vb[q[r]s]t', r'\vb[q[r', r'\vb[q[r]s]t', r'\vb[q]t']
for tol in (True, False):
    print('tolerant', tol)
    first = {}
    for d in docs:
        try:
            w = LatexWalker(d, latex_context=db, tolerant_parsing=tol)
            nl,_ = w.parse_content(LatexGeneralNodesParser())
            r = dump(nl)
        except Exception as e:
            r = 'EXC %s %s'%(type(e).__name__, str(e)[:70])
        if d in first and first[d]!=r:
            print('  DIFF for', d); print('    first ', first[d]); print('    second', r)
        first.setdefault(d, r)
        print('  ', d, '->', str(r)[:200])
