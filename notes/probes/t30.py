import sys, logging, collections, random, warnings
logging.disable(logging.CRITICAL); warnings.simplefilter('ignore')
from pylatexenc.latexwalker import LatexWalker
from pylatexenc.latexnodes import LatexWalkerParseError, LatexWalkerError, nodes as N, parsers as P
rng=random.Random(3)
atoms=['a','b',' ','\n','{','}','[',']','$','\\)','\\(','%c\n','~','{x}','[y]','\\alpha ','\\textbf{q}','\\begin{itemize}','\\end{itemize}','\\item','\\\\','x','\\end{a}','\\begin{a}']
fails=collections.defaultdict(list); st=collections.Counter()
def canon(nl): return [ (type(n).__name__, n.pos, n.pos_end) for n in nl if n is not None] if nl is not None else None
for it in range(3000):
    s=''.join(rng.choice(atoms) for _ in range(rng.randint(1,9)))
    tol=False
    w=LatexWalker(s,tolerant_parsing=tol)
    for pos in range(len(s)+1):
        kind=rng.choice(['brace','brace]','env','math','max','none'])
        kw={}
        if kind=='brace': kw=dict(stop_upon_closing_brace='}')
        if kind=='brace]': kw=dict(stop_upon_closing_brace=']')
        if kind=='env': kw=dict(stop_upon_end_environment=rng.choice(['a','itemize']))
        if kind=='math': kw=dict(stop_upon_closing_mathmode=rng.choice(['$','\\)']))
        if kind=='max': kw=dict(read_max_nodes=rng.randint(1,3))
        ps=None
        if kind=='math': ps=w.make_parsing_state(in_math_mode=True, math_mode_delimiter={'$':'$','\\)':'\\('}[kw['stop_upon_closing_mathmode']])
        try:
            nl,p,l=w.get_latex_nodes(pos=pos,parsing_state=ps,**kw); old=('ok',canon(nl),p,l)
        except LatexWalkerParseError: old=('err',)
        except Exception as e: old=('EXC',type(e).__name__,str(e)[:50])
        st[kind+':'+old[0]]+=1
        if old[0]=='EXC': fails['exc'].append((s,pos,kw,old)); continue
        if old[0]!='ok': continue
        _,c,p,l=old
        if nl is None: fails['None'].append((s,pos,kw)); continue
        # semantic checks
        if p is None:
            fails['p-None'].append((s,pos,kw)); continue
        end=p+l
        v=nl.latex_verbatim()
        closer={'brace':'}','brace]':']'}.get(kind) or (('\\end{'+kw.get('stop_upon_end_environment','')+'}') if kind=='env' else kw.get('stop_upon_closing_mathmode'))
        if kind in('brace','brace]','env','math'):
            body=s[p:end]
            if not body.endswith(closer): fails['no-closer:'+kind].append((s,pos,kw,p,l)); continue
            inner=body[:-len(closer)]
            if kind=='env':
                import re
                # allow whitespace variants? exact here
                pass
            if v!=inner.rstrip() and v!=inner and not inner.startswith(v): fails['verbatim!=inner:'+kind].append((s,pos,kw,v,inner)); continue
            if v!=inner: 
                # trailing stuff between nodes and closer must be whitespace only
                if inner[len(v):].strip()!='': fails['gap:'+kind].append((s,pos,kw,v,inner))
        elif kind=='max':
            if len([n for n in nl if n is not None])>kw['read_max_nodes']: fails['too-many-nodes'].append((s,pos,kw,c))
            if v!=s[p:end]: fails['max-verbatim'].append((s,pos,kw,v,s[p:end]))
        else:
            if v!=s[p:end] or end!=len(s): fails['none-verbatim'].append((s,pos,kw,v,s[p:end]))
print(st)
for k,v in fails.items():
    print(k,len(v))
    for x in sorted(v,key=lambda t:len(t[0]))[:4]: print('   ',str(x)[:300])
