# prototype: grammar-generated documents with ground-truth structure vs strict parse
import sys, logging, collections, random, warnings
logging.disable(logging.CRITICAL); warnings.simplefilter('ignore')
from pylatexenc.latexwalker import LatexWalker
from pylatexenc.macrospec import LatexContextDb, MacroSpec, EnvironmentSpec, SpecialsSpec
from pylatexenc.latexnodes import LatexArgumentSpec, LatexWalkerParseError, nodes as N, ParsingStateDeltaEnterMathMode
from pylatexenc.latexnodes.parsers import LatexGeneralNodesParser
rng=random.Random(int(sys.argv[1]) if len(sys.argv)>1 else 0)
ARGT=['*','[','{','m','o','s','t+','r()','d<>','v']
def mkctx(unknown):
    db=LatexContextDb()
    sigs={}
    macros=[];envs=[]
    for i in range(12):
        sig=[rng.choice(ARGT) for _ in range(rng.randint(0,3))]
        name='mac'+'abcdefghijkl'[i]
        sigs[name]=sig; macros.append(MacroSpec(name,[LatexArgumentSpec(a) for a in sig]))
    for i in range(5):
        sig=[rng.choice(['[','{','*','o','m']) for _ in range(rng.randint(0,2))]
        name='env'+'abcde'[i]
        sigs['E:'+name]=sig; envs.append(EnvironmentSpec(name,[LatexArgumentSpec(a) for a in sig]))
    envs.append(EnvironmentSpec('mathenv',[],body_parsing_state_delta=ParsingStateDeltaEnterMathMode())); sigs['E:mathenv']=[]
    macros.append(MacroSpec('sym',[])); sigs['sym']=[]
    macros.append(MacroSpec('\\',[LatexArgumentSpec('*')])); 
    db.add_context_category('c',macros=macros,environments=envs,specials=[SpecialsSpec('~'),SpecialsSpec('--'),SpecialsSpec('---'),SpecialsSpec('\n\n')])
    if unknown:
        db.set_unknown_macro_spec(MacroSpec('')); db.set_unknown_environment_spec(EnvironmentSpec(''))
    return db,sigs
WS=['',' ','  ','\n',' \n ']
def ws(): return rng.choice(WS) if rng.random()<0.4 else ''
def text():
    return ''.join(rng.choice('abcxyz012.,;:!?') for _ in range(rng.randint(1,4)))
# AST: ('T',str) ('G',delims,children) ('M',name,args) ('E',name,args,body) ('MATH',delims,children) ('C',text) ('S',chars) ('P',)
def gen_block(depth,sigs,inmath=False,closer=None):
    out=[]
    for _ in range(rng.randint(0,4 if depth<3 else 1)):
        it=gen_item(depth,sigs,inmath)
        if it[0]=='P' and out and out[-1][0]=='P': continue
        out.append(it)
    return out
def gen_item(depth,sigs,inmath):
    r=rng.random()
    if depth>=4 or r<0.3: return ('T',text())
    if r<0.4: return ('G',('{','}'),gen_block(depth+1,sigs,inmath))
    if r<0.65:
        name=rng.choice([k for k in sigs if not k.startswith('E:')])
        return ('M',name,[gen_arg(a,depth,sigs,inmath) for a in sigs[name]])
    if r<0.75:
        name=rng.choice([k[2:] for k in sigs if k.startswith('E:')])
        return ('E',name,[gen_arg(a,depth,sigs,inmath) for a in sigs['E:'+name]],gen_block(depth+1,sigs,inmath or name=='mathenv'))
    if r<0.85 and not inmath:
        d=rng.choice([('$','$'),('$$','$$'),('\\(','\\)'),('\\[','\\]')])
        b=gen_block(depth+1,sigs,True)
        if d[0]=='$' and (not b or b[0][0] not in ('T','G')): b=[('T',text())]+b
        return ('MATH',d,b)
    if r<0.9: return ('C',rng.choice(['','c','com ment','x{}$']))
    if r<0.95: return ('S',rng.choice(['~','--','---']))
    return ('P',)
def gen_arg(a,depth,sigs,inmath):
    if a in('*','s'): return ('STAR',) if rng.random()<.5 else None
    if a in('[','o'): return ('G',('[',']'),gen_block(depth+1,sigs,inmath)) if rng.random()<.5 else None
    if a in('{','m'):
        if rng.random()<.7: return ('G',('{','}'),gen_block(depth+1,sigs,inmath))
        return rng.choice([('T1',rng.choice('abcxyz019')),('M','sym',[])])
    if a=='t+': return ('TOK','+') if rng.random()<.5 else None
    if a=='r()': return ('G',('(',')'),gen_block(depth+1,sigs,inmath))
    if a=='d<>': return ('G',('<','>'),gen_block(depth+1,sigs,inmath)) if rng.random()<.5 else None
    if a=='v':
        d=rng.choice([('{','}'),('|','|'),('!','!')])
        return ('V',d,rng.choice(['','ab','a\\b%$','x y']))
# render with constraints; returns string. 'forbid_next' = set of chars that must not start the next rendered piece
class R:
    def __init__(self): self.s=''; self.forbid=set(); self.need_sep_letter=False
    def emit(self,t):
        if not t: return
        if t[0] in self.forbid or (self.need_sep_letter and t[0].isalpha()):
            self.s+='{}' ; 
        self.s+=t; self.forbid=set(); self.need_sep_letter=False
def render_block(items,R_,sigs,delims_forbid=()):
    for it in items: render(it,R_,sigs)
def render(it,r,sigs):
    k=it[0]
    if k=='T': r.emit(it[1])
    elif k=='T1': r.emit(it[1])
    elif k=='G':
        r.emit(it[1][0]); render_block(it[2],r,sigs); r.forbid=set(); r.need_sep_letter=False; r.emit(it[1][1])
    elif k=='M':
        name=it[1]; r.emit('\\'+name); r.need_sep_letter=True
        sig=sigs.get(name,[])
        pend=set()
        for a,av in zip(sig,it[2]):
            if av is None:
                if a in('*','s'): pend.add('*')
                if a in('[','o'): pend.add('[')
                if a=='t+': pend.add('+')
                if a=='d<>': pend.add('<')
                continue
            w=ws()
            if av[0]=='V':
                r.s+=w; r.forbid=set(); r.need_sep_letter=False
                if av[1][0] in pend: r.s+='{}' ; 
                r.s+=av[1][0]+av[2]+av[1][1]; pend=set(); continue
            if av[0] in('T1',) :
                if not w and r.need_sep_letter: w=' '
                r.s+=w; r.need_sep_letter=False
                if av[1] in pend: raise Skip()
                r.s+=av[1]; pend=set(); continue
            if av[0]=='M':
                r.s+=w; r.need_sep_letter=False; r.s+='\\sym'; r.need_sep_letter=True; pend=set(); continue
            r.s+=w; r.need_sep_letter=False
            if av[0]=='STAR': r.s+='*'
            elif av[0]=='TOK': r.s+=av[1]
            else:
                if av[1][0] in pend: raise Skip()
                r.forbid=set(); render(av,r,sigs)
            pend=set()
        r.forbid|=pend
    elif k=='E':
        name=it[1]; r.emit('\\begin{'+name+'}')
        sig=sigs['E:'+name]; pend=set()
        for a,av in zip(sig,it[2]):
            if av is None:
                if a in('*','s'): pend.add('*')
                if a in('[','o'): pend.add('[')
                continue
            if av[0]=='STAR':
                if '*' in pend: raise Skip()
                r.s+='*'
            elif av[0]=='T1':
                if av[1] in pend: raise Skip()
                if r.need_sep_letter: r.s+=' '
                r.need_sep_letter=False
                r.s+=av[1]
            elif av[0]=='M': r.s+='\\sym'; r.need_sep_letter=True
            else:
                if av[1][0] in pend: raise Skip()
                r.need_sep_letter=False; render(av,r,sigs)
            pend=set()
        r.forbid|=pend
        render_block(it[3],r,sigs); r.forbid=set(); r.need_sep_letter=False; r.emit('\\end{'+name+'}')
    elif k=='MATH':
        if it[1][0].startswith('$') and r.s.endswith('$'): r.s+=' '
        r.emit(it[1][0]); 
        inner=R(); render_block(it[2],inner,sigs)
        body=inner.s
        r.s+=body; r.forbid=set(); r.need_sep_letter=False
        r.s+=it[1][1]
        if it[1][1].startswith('$'): r.forbid={'$'}
    elif k=='C':
        r.forbid=set(); r.need_sep_letter=False; r.s+='%'+it[1]+'\n'
    elif k=='S': r.emit(it[1]); 
    elif k=='P': r.forbid=set() if False else r.forbid; r.s+='\n\n'; r.need_sep_letter=False
class Skip(Exception): pass
# canonical dump of parsed tree
def canon_nodes(nl):
    out=[]
    for n in (nl or []):
        if n is None: continue
        c=canon(n)
        if c[0]=='T' and out and out[-1][0]=='T': out[-1]=('T',out[-1][1]+c[1])
        else: out.append(c)
    return out
def canon(n):
    if isinstance(n,N.LatexNodeList): 
        x=canon_nodes(n); return x[0] if len(x)==1 else ('L',x)
    if n.isNodeType(N.LatexCharsNode): return ('T',n.chars)
    if n.isNodeType(N.LatexGroupNode): return ('G',tuple(n.delimiters),canon_nodes(n.nodelist))
    if n.isNodeType(N.LatexCommentNode): return ('C',n.comment)
    if n.isNodeType(N.LatexMacroNode): return ('M',n.macroname,[None if a is None else canon(a) for a in (n.nodeargd.argnlist if n.nodeargd else [])])
    if n.isNodeType(N.LatexEnvironmentNode): return ('E',n.environmentname,[None if a is None else canon(a) for a in (n.nodeargd.argnlist if n.nodeargd else [])],canon_nodes(n.nodelist))
    if n.isNodeType(N.LatexMathNode): return ('MATH',tuple(n.delimiters),canon_nodes(n.nodelist))
    if n.isNodeType(N.LatexSpecialsNode): return ('P',) if n.specials_chars=='\n\n' else ('S',n.specials_chars)
def strip_ws(c):
    # remove whitespace from text for comparison of structure
    if c is None: return None
    k=c[0]
    if k=='T':
        t=''.join(c[1].split()); return ('T',t)
    if k=='T1': return ('T',c[1])
    if k=='STAR': return ('T','*')
    if k=='TOK': return ('T',c[1])
    if k=='V': return ('G',c[1],[('T',''.join(c[2].split()))] if ''.join(c[2].split()) else [])
    if k=='G': return ('G',tuple(c[1]),norm_list(c[2]))
    if k=='M': return ('M',c[1],[strip_ws(a) for a in c[2]])
    if k=='E': return ('E',c[1],[strip_ws(a) for a in c[2]],norm_list(c[3]))
    if k=='MATH': return ('MATH',tuple(c[1]),norm_list(c[2]))
    if k=='L': 
        x=norm_list(c[1]); return x[0] if len(x)==1 else ('L',x)
    return c
def norm_list(items):
    out=[]
    for it in items:
        c=strip_ws(it)
        if c[0]=='T':
            if c[1]=='' : continue
            if out and out[-1][0]=='T': out[-1]=('T',out[-1][1]+c[1]); continue
        out.append(c)
    return out
fails=collections.defaultdict(list); st=collections.Counter()
N_=int(sys.argv[2]) if len(sys.argv)>2 else 3000
for it in range(N_):
    if it%50==0: db,sigs=mkctx(unknown=rng.random()<.5)
    ast=gen_block(0,sigs)
    r=R()
    try: render_block(ast,r,sigs)
    except Skip: st['skip']+=1; continue
    s=r.s
    # math body hack may have inserted 'x': re-derive expected by reparsing? keep simple: skip docs with $ math empty
    try:
        w=LatexWalker(s,latex_context=db,tolerant_parsing=False); nl,_=w.parse_content(LatexGeneralNodesParser())
    except LatexWalkerParseError as e:
        fails['rejected:'+e.msg[:40]].append((s,)); continue
    except Exception as e:
        fails['EXC:'+type(e).__name__+str(e)[:30]].append((s,)); continue
    got=norm_list(canon_nodes(nl)); exp=norm_list(ast)
    st['ok']+=1
    if got!=exp: fails['structure'].append((s,exp,got))
print(st)
for k,v in sorted(fails.items(),key=lambda kv:-len(kv[1])):
    print(k,len(v))
    for x in sorted(v,key=lambda t:len(t[0]))[:8]:
        for y in x: print('     ',repr(y)[:400])
