import logging, warnings
logging.disable(logging.CRITICAL); warnings.simplefilter('ignore')
from pylatexenc.latex2text import LatexNodes2Text
docs=['\\alpha b','\\alpha  b','\\alpha{} b','\\alpha\nb','{a} {b}','{a} b','a {b}','\\textbf{a} b','\\textbf{a} {b}','\\alpha \\beta c','\\alpha {b}','a %c\n b','a%c\nb','a %c\n\n b','\\alpha%c\n b','{a}%c\n {b}','$\\alpha b$','$a \\beta$','$ a $','x $ a $ y','\\[ a \\]','x\\[a\\]y','a~b','a -- b --- c','``q\'\'','a & b','\\emph a','\\"o \\\'{e} \\^\\i','\\frac{1}{2} x','\\sqrt{x}','\\begin{itemize}\\item a\\item[x] b\\end{itemize}','\\begin{foo}a\\end{foo}','a\n\nb','a \n \n b','\\S\\ x','\\textbf{ a }','\\, a','\\% b','\\alpha\n\nb']
pols=[('macros',{}),('bos',{'strict_latex_spaces':'based-on-source'}),('eie',{'strict_latex_spaces':'except-in-equations'}),('True',{'strict_latex_spaces':True})]
for d in docs:
    print(repr(d))
    for nm,kw in pols:
        print('     %-6s %r'%(nm, LatexNodes2Text(**kw).latex_to_text(d,tolerant_parsing=False)))
