import sys, random, collections, logging
logging.disable(logging.CRITICAL)
from pylatexenc.macrospec import LatexContextDb, MacroSpec, EnvironmentSpec, SpecialsSpec
rng = random.Random(int(sys.argv[1]) if len(sys.argv)>1 else 0)
MN=['a','b','c']; EN=['e','f']; SN=['~','~~','!','!~','~!~']
fails=collections.defaultdict(list)
def mk(kind,name,tag):
    if kind=='m': o=MacroSpec(name)
    elif kind=='e': o=EnvironmentSpec(name)
    else: o=SpecialsSpec(name)
    o._tag=tag; return o
def first_def(db, kind, name):
    for c in db.categories():
        it = {'m':db.iter_macro_specs,'e':db.iter_environment_specs,'s':db.iter_specials_specs}[kind]
        for sp in it(categories=[c]):
            nm = {'m':'macroname','e':'environmentname','s':'specials_chars'}[kind]
            if getattr(sp,nm)==name: return sp
    return {'m':db.unknown_macro_spec,'e':db.unknown_environment_spec,'s':db.unknown_specials_spec}[kind]
def snapshot(db):
    d={}
    for n in MN: d[('m',n)]=id(db.get_macro_spec(n))
    for n in EN: d[('e',n)]=id(db.get_environment_spec(n))
    for n in SN: d[('s',n)]=id(db.get_specials_spec(n))
    d['cats']=tuple(db.categories())
    return d
def check(db, hist):
    for n in MN:
        if db.get_macro_spec(n) is not first_def(db,'m',n): fails['macro-order'].append(list(hist)); return
    for n in EN:
        if db.get_environment_spec(n) is not first_def(db,'e',n): fails['env-order'].append(list(hist)); return
    for n in SN:
        if db.get_specials_spec(n) is not first_def(db,'s',n): fails['spec-order'].append(list(hist)); return
    # test_for_specials: longest match, ties by category order
    for s in ['~~!~','!~!','~!~~','x~','']:
        for pos in range(len(s)+1):
            best=None
            for c in db.categories():
                for sp in db.iter_specials_specs(categories=[c]):
                    if s.startswith(sp.specials_chars,pos) and (best is None or len(sp.specials_chars)>len(best.specials_chars)):
                        best=sp
            got=db.test_for_specials(s,pos)
            if got is not best: fails['test_for_specials'].append((list(hist),s,pos)); return
N=int(sys.argv[2]) if len(sys.argv)>2 else 3000
for it in range(N):
    dbs=[LatexContextDb()]; hist=[]; tagc=0; snaps={}
    for step in range(rng.randint(1,7)):
        db=rng.choice(dbs); i=dbs.index(db)
        op=rng.choice(['add','add','add','unk','freeze','filter','extend'])
        try:
            if op=='add':
                cat=rng.choice(['A','B','C','D',None]); mode=rng.choice(['append','prepend','before','after'])
                ms=[mk('m',n,tagc) for n in rng.sample(MN,rng.randint(0,2))]
                es=[mk('e',n,tagc) for n in rng.sample(EN,rng.randint(0,1))]
                ss=[mk('s',n,tagc) for n in rng.sample(SN,rng.randint(0,2))]
                kw={}
                if mode=='prepend': kw['prepend']=True
                if mode=='before': kw['insert_before']=rng.choice(['A','B','C','Z'])
                if mode=='after': kw['insert_after']=rng.choice(['A','B','C','Z'])
                hist.append((i,'add',cat,mode,kw,[m.macroname for m in ms],[s.specials_chars for s in ss]))
                was_frozen=db.frozen
                try:
                    db.add_context_category(cat,macros=ms,environments=es,specials=ss,**kw)
                    if was_frozen: fails['frozen-modified'].append(list(hist))
                except RuntimeError:
                    if not was_frozen: raise
                except ValueError:
                    pass
            elif op=='unk':
                hist.append((i,'unk'))
                was_frozen=db.frozen
                try:
                    db.set_unknown_macro_spec(mk('m','',tagc))
                    if was_frozen: fails['frozen-modified'].append(list(hist))
                except RuntimeError:
                    if not was_frozen: raise
            elif op=='freeze':
                hist.append((i,'freeze')); db.freeze()
            elif op=='filter':
                kw={}
                if rng.random()<.5: kw['keep_categories']=rng.sample(['A','B','C','D'],2)
                if rng.random()<.5: kw['exclude_categories']=rng.sample(['A','B','C','D'],1)
                if rng.random()<.5: kw['keep_which']=rng.sample(['macros','environments','specials'],rng.randint(1,2))
                hist.append((i,'filter',kw))
                snaps[i]=snapshot(db)
                dbs.append(db.filtered_context(**kw))
            elif op=='extend':
                cat=rng.choice(['X','Y',None,None])
                ms=[mk('m',n,tagc) for n in rng.sample(MN,rng.randint(0,2))]
                ss=[mk('s',n,tagc) for n in rng.sample(SN,rng.randint(0,2))]
                hist.append((i,'extend',cat,[m.macroname for m in ms],[s.specials_chars for s in ss]))
                if not db.frozen:
                    try: db.extended_with(cat,macros=ms,specials=ss); fails['extend-unfrozen-ok'].append(list(hist))
                    except RuntimeError: pass
                else:
                    snaps[i]=snapshot(db)
                    try: dbs.append(db.extended_with(cat,macros=ms,specials=ss))
                    except ValueError: pass
            tagc+=1
        except Exception as e:
            fails['exc:'+type(e).__name__+str(e)[:50]].append(list(hist)); break
        for d in dbs: check(d,hist)
        for j,sn in snaps.items():
            if False: fails['parent-changed'].append(list(hist))
for k,v in fails.items():
    print(k,len(v)); 
    for x in sorted(v,key=len)[:2]: print('    ',x)
