import signal, sys, logging, collections, traceback, random, itertools, warnings
logging.disable(logging.CRITICAL); warnings.simplefilter('ignore')
from pylatexenc.latexwalker import LatexWalker, get_default_latex_context_db as wdb
from pylatexenc.latexnodes import LatexWalkerParseError, nodes as N, ParsedArguments
from pylatexenc.latexnodes.parsers import LatexGeneralNodesParser
W = wdb()
macros = sorted(set(m.macroname for m in W.iter_macro_specs()))
envs = sorted(set(m.environmentname for m in W.iter_environment_specs()))
seed = int(sys.argv[1]) if len(sys.argv)>1 else 0
NN = int(sys.argv[2]) if len(sys.argv)>2 else 20000
TOL = (len(sys.argv)>3 and sys.argv[3]=='tol')
rng = random.Random(seed)
atoms = ['a','b',' ','\n','\n\n',' \n \n ','{','}','[',']','$','$$','\\(','\\)','\\[','\\]','%','%c\n','%c\n\n','~','&','``',"''",'--','---','*','{x}','[y]','\t','\\\\','\\alpha','\\alpha ','\\unknown ','\\textbf','\\textbf ','\\section','\\item','\\frac','\\sqrt','\\verb|x|','\\verb+{+','\\begin{verbatim}x}\\end{verbatim}','\\begin{lstlisting}[o]x\\end{lstlisting}']
def atom():
    r = rng.random()
    if r < 0.7: return rng.choice(atoms)
    if r < 0.85:
        m = rng.choice(macros); return '\\'+m+rng.choice(['',' ','{','*','['])
    e = rng.choice(envs)
    return rng.choice(['\\begin{%s}','\\end{%s}','\\begin{%s}x\\end{%s}','\\begin{%s}[o]{a}\\end{%s}']).replace('%s', e)
fails = collections.defaultdict(list)
def children(n):
    out=[]
    na = getattr(n,'nodeargd',None)
    if na is not None and getattr(na,'argnlist',None):
        for a in na.argnlist:
            if a is None: continue
            if isinstance(a, N.LatexNodeList): out += [x for x in a.nodelist if x is not None]
            else: out.append(a)
    nl = getattr(n,'nodelist',None)
    if nl is not None:
        out += [x for x in nl if x is not None]
    return out
def check_node(s, n, lo, hi, path):
    if n.pos is None or n.pos_end is None: return 'none-pos'
    if not (lo <= n.pos <= n.pos_end <= hi): return 'out-of-range %s [%d,%d] not in [%d,%d]'%(type(n).__name__,n.pos,n.pos_end,lo,hi)
    if n.isNodeType(N.LatexCharsNode):
        if not TOL and n.chars != s[n.pos:n.pos_end]: return 'chars-mismatch %r vs %r'%(n.chars, s[n.pos:n.pos_end])
    if n.isNodeType(N.LatexCommentNode):
        if s[n.pos:n.pos_end] != '%'+n.comment+n.comment_post_space: return 'comment-mismatch'
    p = n.pos
    for c in children(n):
        r = check_node(s, c, p, n.pos_end, path+[type(n).__name__])
        if r: return r
        p = c.pos_end
    return None
stats=collections.Counter()
cases=[]
small = ['a',' ','{','}','$','\\','%','\n','[',']','&','~']
for L in range(0,5):
    for t in itertools.product(small, repeat=L): cases.append(''.join(t))
for i in range(NN): cases.append(''.join(atom() for _ in range(rng.randint(1,8))))
for s in cases:
    try:
        w = LatexWalker(s, tolerant_parsing=TOL)
        nl,_ = w.parse_content(LatexGeneralNodesParser())
    except LatexWalkerParseError:
        stats['rejected']+=1; continue
    except Exception as e:
        fails['EXC '+type(e).__name__].append(s); continue
    stats['parsed']+=1
    ns=[x for x in nl if x is not None]
    if not TOL:
        if ''.join(x.latex_verbatim() for x in ns) != s: fails['top-concat'].append((s, [ (type(x).__name__,x.pos,x.pos_end) for x in ns])); continue
        if nl.latex_verbatim()!=s: fails['nl-verbatim'].append(s)
        if (nl.pos, nl.pos_end) != (0, len(s)): fails['nl-span'].append((s,nl.pos,nl.pos_end))
    p=0
    for x in ns:
        if not TOL and x.pos != p: fails['top-gap'].append((s,[ (type(y).__name__,y.pos,y.pos_end) for y in ns])); break
        r = check_node(s, x, p if not TOL else 0, len(s), [])
        if r: fails[r.split(' ')[0]].append((s,r)); break
        p = x.pos_end
print(stats)
for k,v in sorted(fails.items(), key=lambda kv:-len(kv[1])):
    print(k,len(v))
    for x in sorted(v,key=lambda t: len(t[0]) if isinstance(t,tuple) else len(t))[:4]: print('    ',x)
