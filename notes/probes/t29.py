import logging, warnings
logging.disable(logging.CRITICAL); warnings.simplefilter('ignore')
from pylatexenc.macrospec import MacroSpec, LatexContextDb, MacroStandardArgsParser
from pylatexenc.latexwalker import LatexWalker
from pylatexenc.latexnodes.parsers import LatexGeneralNodesParser, LatexOptionalSquareBracketsParser
for s in ['\\foo [o]{a}', '\\foo[o]{a}', '\\foo\n[o]{a}', '\\foo %c\n[o]{a}']:
    for name,m in [('new',MacroSpec('foo','[{')),('legacy',MacroSpec('foo',args_parser=MacroStandardArgsParser('[{')))]:
        db=LatexContextDb(); db.add_context_category('x',macros=[m]); db.set_unknown_macro_spec(MacroSpec(''))
        w=LatexWalker(s,latex_context=db,tolerant_parsing=False); nl,_=w.parse_content(LatexGeneralNodesParser())
        n=nl[0]
        print(repr(s), name, [None if a is None else a.latex_verbatim() for a in n.nodeargd.argnlist], [x.latex_verbatim() for x in nl[1:]])
w=LatexWalker(' [o]x')
print(w.get_latex_maybe_optional_arg(0))
print(w.parse_content(LatexOptionalSquareBracketsParser(), token_reader=w.make_token_reader(pos=0)))
