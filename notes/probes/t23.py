import sys, logging, collections, random, warnings
logging.disable(logging.CRITICAL); warnings.simplefilter('ignore')
from pylatexenc.latexwalker import LatexWalker, get_default_latex_context_db as wdb
from pylatexenc.latexnodes import LatexWalkerParseError, nodes as N, ParsedArguments
from pylatexenc.latexnodes.parsers import LatexGeneralNodesParser
W=wdb()
macros=sorted(m.macroname for m in W.iter_macro_specs()); envs=sorted(e.environmentname for e in W.iter_environment_specs())
rng=random.Random(int(sys.argv[1]) if len(sys.argv)>1 else 0)
atoms=['a','b',' ','\n','\n\n','{','}','[',']','$','$$','\\(','\\)','\\[','\\]','%c\n','~','&','--','*','{x}','[y]','\\\\','\\alpha ','\\textbf','\\section','\\item','\\frac','\\sqrt','\\verb|x|','\\begin{verbatim}x\\end{verbatim}','\\','\\begin{','}']
def atom():
    r=rng.random()
    if r<.6: return rng.choice(atoms)
    if r<.8: return '\\'+rng.choice(macros)+rng.choice(['',' ','{','*','['])
    e=rng.choice(envs); return rng.choice(['\\begin{%s}','\\end{%s}','\\begin{%s}x\\end{%s}','\\begin{%s}[o]{a}\\end{%s}']).replace('%s',e)
class V(N.LatexNodesVisitor):
    def __init__(s): s.log=[]; s.cnt=0
    def visit(s,node,**kw):
        s.cnt+=1; s.log.append((id(node),type(node).__name__,{k:v for k,v in kw.items()}, s.cnt)); return s.cnt
# reference traversal: returns (expected post-order list of ids, and for each id the expected kwargs built from child result tokens)
def ref(obj, order, exp):
    # returns token (sequence number assigned in order)
    if obj is None: return None
    def lst(nl, default_empty):
        if nl is None: return default_empty
        return [ref(x,order,exp) for x in nl]
    if isinstance(obj,N.LatexNodeList):
        kw={'visited_results_nodelist': lst(obj.nodelist,[])}
    elif isinstance(obj,ParsedArguments):
        kw={'visited_results_argnlist': lst(obj.argnlist,None)}
    elif obj.isNodeType(N.LatexCharsNode) or obj.isNodeType(N.LatexCommentNode): kw={}
    elif obj.isNodeType(N.LatexGroupNode): kw={'visited_results_nodelist': lst(obj.nodelist,[])}
    elif obj.isNodeType(N.LatexMathNode): kw={'visited_results_nodelist': lst(obj.nodelist,None)}
    elif obj.isNodeType(N.LatexMacroNode) or obj.isNodeType(N.LatexSpecialsNode):
        kw={'visited_results_arguments': ('' if obj.nodeargd is None else ref(obj.nodeargd,order,exp))}
    elif obj.isNodeType(N.LatexEnvironmentNode):
        a=('' if obj.nodeargd is None else ref(obj.nodeargd,order,exp))
        kw={'visited_results_arguments': a, 'visited_results_body': lst(obj.nodelist,[])}
    else: kw={}
    order.append(id(obj)); tok=len(order); exp[id(obj)]=kw
    return tok
fails=collections.defaultdict(list); st=collections.Counter()
for it in range(int(sys.argv[2]) if len(sys.argv)>2 else 5000):
    s=''.join(atom() for _ in range(rng.randint(1,8)))
    tol=rng.random()<.5
    try:
        w=LatexWalker(s,tolerant_parsing=tol); nl,_=w.parse_content(LatexGeneralNodesParser())
    except LatexWalkerParseError: continue
    if nl is None: continue
    v=V()
    try: v.start(nl)
    except Exception as e: fails['visit-exc:'+type(e).__name__+str(e)[:50]].append(s); continue
    order=[];exp={}
    ref(nl,order,exp)
    got=[x[0] for x in v.log]
    st['ok']+=1; st['nodes']+=len(got)
    if got!=order: fails['order'].append((s,len(got),len(order))); continue
    for (i,tn,kw,c) in v.log:
        if kw!=exp[i]: fails['kwargs:'+tn].append((s,kw,exp[i])); break
print(st)
for k,v in fails.items():
    print(k,len(v))
    for x in sorted(v,key=lambda t:len(t[0]) if isinstance(t,tuple) else len(t))[:4]: print('   ',x)
