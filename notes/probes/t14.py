import sys, random, re, unicodedata, logging, collections
logging.disable(logging.CRITICAL)
from pylatexenc.latexencode import (UnicodeToLatexEncoder, UnicodeToLatexConversionRule, RULE_DICT, RULE_REGEX, RULE_CALLABLE,
    get_builtin_uni2latex_dict, PartialLatexToLatexEncoder, unicode_to_latex)
from pylatexenc.latexencode import _uni2latexmap_xml
rng = random.Random(int(sys.argv[1]) if len(sys.argv)>1 else 0)
D = dict(get_builtin_uni2latex_dict()); X = dict(_uni2latexmap_xml.uni2latex)
def prot(scheme, repl):
    if callable(scheme): return scheme(repl)
    if scheme=='none': return repl
    k = repl.rfind('\\')
    dang = k>=0 and repl[k+1:].isalpha()
    if scheme=='braces': return '{'+repl+'}' if dang else repl
    if scheme=='braces-all': return '{'+repl+'}'
    if scheme=='braces-almost-all': return '{'+repl+'}' if repl[0:1]=='\\' else repl
    if scheme=='braces-after-macro': return repl+'{}' if dang else repl
    raise AssertionError
class Fail(Exception): pass
def model(s, rules, scheme, unk, non_ascii_only):
    s = unicodedata.normalize('NFC', s)
    out=[]; pos=0
    while pos < len(s):
        ch=s[pos]
        if non_ascii_only and ord(ch) < 128 and ord(ch)!=127:   # mimic <127
            out.append(ch); pos+=1; continue
        if non_ascii_only and ord(ch)==127:
            pass
        hit=None
        for (kind, data, rsch) in rules:
            if kind=='dict':
                if ord(ch) in data: hit=(data[ord(ch)],1,rsch); break
            elif kind=='regex':
                for rx, repl in data:
                    m = rx.match(s, pos)
                    if m is not None:
                        hit=(repl(m) if callable(repl) else m.expand(repl), m.end()-m.start(), rsch); break
                if hit: break
            else:
                r = data(s,pos)
                if r is not None: hit=(r[1], r[0], rsch); break
        if hit:
            repl,n,rsch=hit
            out.append(prot(rsch if rsch is not None else scheme, repl)); pos+=n; continue
        o=ord(ch)
        if (32<=o<=127) or ch in '\n\r\t':
            out.append(ch)
        else:
            if unk=='keep': out.append(ch)
            elif unk=='replace': out.append(r'{\bfseries ?}')
            elif unk=='ignore': out.append('')
            elif unk=='unihex': out.append(r'\ensuremath{\langle}\texttt{U+%04X}\ensuremath{\rangle}'%o)
            elif unk=='fail': raise Fail()
        pos+=1
    return out
alphabet = list('abcXYZ 12{}$%&#_^~\\<>"\'`-,.;\n\t') + ['\x7f','\x01','é','e\u0301','ä','ß','α','→','∞','“','—','ł','ı','\u0301','\U0001F600','\ud7ff','\u0378','𝔸','ff'[0],'ﬁ','Å','\u212b','ǅ']
def gen_rules():
    rules=[]; specs=[]
    for _ in range(rng.randint(0,3)):
        kind=rng.choice(['dict','regex','callable'])
        rsch=rng.choice([None,None,'none','braces','braces-all','braces-after-macro','braces-almost-all'])
        if kind=='dict':
            d={ord(c): rng.choice(['\\foo','\\foo{x}','X','\\\'e','']) for c in rng.sample(['a','b','é','α','$','\x7f',' ','→'],rng.randint(1,4))}
            rules.append(UnicodeToLatexConversionRule(RULE_DICT,d,replacement_latex_protection=rsch)); specs.append(('dict',d,rsch))
        elif kind=='regex':
            pats=[(re.compile(p),r) for p,r in rng.sample([(r'ab+',r'\\AB'),(r'[A-Z]{2,}',r'{\g<0>}'),(r'\.\.\.',r'\\ldots'),(r'(a)(b)?',r'<\1>'),(r'é+', lambda m: '\\E'*len(m.group())),(r'\$\$',r'DD')],rng.randint(1,3))]
            rules.append(UnicodeToLatexConversionRule(RULE_REGEX,pats,replacement_latex_protection=rsch)); specs.append(('regex',pats,rsch))
        else:
            w=rng.choice(['ab','X','α→','$'])
            fn=(lambda w: (lambda s,pos: (len(w),'\\C'+str(len(w))) if s.startswith(w,pos) else None))(w)
            rules.append(UnicodeToLatexConversionRule(RULE_CALLABLE,fn,replacement_latex_protection=rsch)); specs.append(('callable',fn,rsch))
    tail=rng.choice(['defaults','unicode-xml',None,'defaults'])
    if tail: rules.append(tail); specs.append(('dict', D if tail=='defaults' else X, None))
    return rules, specs
class Chunks:
    def __init__(self): self.chunks=[]
    def __iadd__(self,s): self.chunks.append(s); return self
fails=collections.defaultdict(list)
N=int(sys.argv[2]) if len(sys.argv)>2 else 3000
for it in range(N):
    rules,specs=gen_rules()
    scheme=rng.choice(['none','braces','braces-all','braces-almost-all','braces-after-macro'])
    unk=rng.choice(['keep','replace','ignore','fail','unihex'])
    nao=rng.random()<0.3
    try:
        enc=UnicodeToLatexEncoder(conversion_rules=rules, replacement_latex_protection=scheme, unknown_char_policy=unk, non_ascii_only=nao, unknown_char_warning=False, latex_string_class=Chunks)
        enc2=UnicodeToLatexEncoder(conversion_rules=rules, replacement_latex_protection=scheme, unknown_char_policy=unk, non_ascii_only=nao, unknown_char_warning=False)
    except Exception as e:
        fails['ctor:'+type(e).__name__].append(str(e)); continue
    for j in range(10):
        s=''.join(rng.choice(alphabet) for _ in range(rng.randint(0,10)))
        try: exp=model(s,specs,scheme,unk,nao)
        except Fail: exp='FAIL'
        try: got=enc.unicode_to_latex(s).chunks; got2=enc2.unicode_to_latex(s)
        except ValueError: got='FAIL'; got2='FAIL'
        except Exception as e: got='EXC '+type(e).__name__; got2=got
        if got!=exp or (got!='FAIL' and ''.join(got)!=got2):
            fails['model-diff'].append((s,scheme,unk,nao,[x[0] for x in specs],exp,got))
# partial encoder
for it in range(N):
    s=''.join(rng.choice(alphabet+['\\alpha','\\textbf{','\\begin{a}','\\begin','\\end x','$x$','\\ ','\\\\','\\%']) for _ in range(rng.randint(0,8)))
    try:
        r=PartialLatexToLatexEncoder(unknown_char_warning=False).unicode_to_latex(s)
    except Exception as e:
        fails['partial-exc:'+type(e).__name__].append(s)
for k,v in fails.items():
    print(k,len(v))
    for x in sorted(v,key=lambda t: len(t[0]))[:4]: print('   ',x)
