import sys, logging, collections, random, warnings, signal
logging.disable(logging.CRITICAL); warnings.simplefilter('ignore')
from pylatexenc.latexwalker import LatexWalker
from pylatexenc.latexnodes import LatexWalkerParseError, nodes as N
from pylatexenc.latexnodes.parsers import LatexGeneralNodesParser
rng=random.Random(int(sys.argv[1]) if len(sys.argv)>1 else 0)
def dump(n):
    if n is None: return None
    if isinstance(n,(N.LatexNodeList,list)): return [dump(x) for x in n]
    t=type(n).__name__; d=[t,n.pos,n.pos_end, bool(n.parsing_state.in_math_mode)]
    if t=='LatexCharsNode': d.append(n.chars)
    if t=='LatexCommentNode': d+=[n.comment,n.comment_post_space]
    if t=='LatexGroupNode': d+=[tuple(n.delimiters),dump(n.nodelist)]
    if t=='LatexMacroNode': d+=[n.macroname,n.macro_post_space,[dump(a) for a in n.nodeargd.argnlist] if n.nodeargd else None]
    if t=='LatexEnvironmentNode': d+=[n.environmentname,[dump(a) for a in n.nodeargd.argnlist] if n.nodeargd else None,dump(n.nodelist)]
    if t=='LatexMathNode': d+=[n.displaytype,tuple(n.delimiters),dump(n.nodelist)]
    if t=='LatexSpecialsNode': d+=[n.specials_chars]
    return d
snips=['abc','a b','{x}','\\textbf{y}','\\emph z','$m$','\\[d\\]','\\begin{itemize}\\item q\\end{itemize}','%c\n','~','--','\n\n','\\alpha','\\alpha ','\\frac12','\\section*[o]{t}','\\verb|}|','\\begin{verbatim}}\\end{verbatim}','\\\\*','\\item','\\sqrt[3]{x}','\\(x\\)','$$y$$','\\begin{equation}e\\end{equation}',' ','\\"o','{}']
closers=['}','\\end{x}','\\)','\\]',']}','}}']
garbage=['','abc','{','$','\\begin{a}','}','\\textbf','%','\\','\\end{itemize} z']
fails=collections.defaultdict(list); st=collections.Counter()
def h(*a): raise TimeoutError()
signal.signal(signal.SIGALRM,h)
for it in range(int(sys.argv[2]) if len(sys.argv)>2 else 4000):
    D=''.join(rng.choice(snips) for _ in range(rng.randint(0,5)))
    try:
        ws=LatexWalker(D,tolerant_parsing=False); sn,_=ws.parse_content(LatexGeneralNodesParser())
    except LatexWalkerParseError:
        st['D-invalid']+=1; continue
    # tolerant == strict on valid
    wt=LatexWalker(D,tolerant_parsing=True); tn,_=wt.parse_content(LatexGeneralNodesParser())
    if dump(tn)!=dump(sn): fails['tolerant!=strict'].append((D,))
    T=rng.choice(closers); G=rng.choice(garbage)
    s=D+T+G
    signal.alarm(5)
    try:
        w=LatexWalker(s,tolerant_parsing=True); nl,_=w.parse_content(LatexGeneralNodesParser())
    except BaseException as e:
        fails['tol-exc:'+type(e).__name__].append((s,)); continue
    finally: signal.alarm(0)
    if nl is None: fails['None-result'].append((s,)); continue
    a=dump(sn); b=dump(nl)
    # prefix check: all strict nodes except possibly last chars node
    k=len(a)
    ok = len(b)>=k-1
    for i in range(k):
        if i<len(b) and a[i]==b[i]: continue
        if i==k-1 and a[i][0]=='LatexCharsNode':
            if i<len(b) and b[i][0]=='LatexCharsNode' and b[i][4].startswith(a[i][4]) and b[i][1]==a[i][1]: continue
            if a[i][4].strip()=='' : continue
        ok=False; break
    st['checked']+=1
    if not ok: fails['prefix-lost'].append((D,T+G,a,b))
print(st)
for k,v in fails.items():
    print(k,len(v))
    for x in sorted(v,key=lambda t:len(t[0]))[:4]: print('   ',str(x)[:600])
