import signal, sys, logging
from pylatexenc.latexwalker import LatexWalker
from pylatexenc.latexnodes.parsers import LatexGeneralNodesParser
from pylatexenc.latex2text import LatexNodes2Text
def h(*a): raise TimeoutError()
signal.signal(signal.SIGALRM, h)
for s in ['abc}def', 'abc\\end{x} def', 'abc $x$ } def', '{a}b}c', 'a{b', 'a $b', 'a\\begin{itemize} b', 'x\\)y', r'\textbf{a} b} c', r'\begin{a}b\end{c}d']:
    for tol in (True, ):
        signal.alarm(3)
        try:
            w = LatexWalker(s, tolerant_parsing=tol)
            nodes, delta = w.parse_content(LatexGeneralNodesParser())
            print(repr(s), tol, '->', nodes)
            print('    l2t:', repr(LatexNodes2Text().latex_to_text(s)))
        except BaseException as e:
            print(repr(s), tol, 'EXC', type(e).__name__, str(e)[:100])
        signal.alarm(0)
