import signal, sys, logging, collections, traceback
logging.disable(logging.CRITICAL)
from pylatexenc.latexwalker import LatexWalker, get_default_latex_context_db as wdb
from pylatexenc.latex2text import LatexNodes2Text, get_default_latex_context_db as tdb
def h(*a): raise TimeoutError()
signal.signal(signal.SIGALRM, h)
W = wdb(); T = tdb()
macros = sorted(set(m.macroname for m in W.iter_macro_specs()) | set(m.macroname for m in T.iter_macro_specs()))
envs = sorted(set(m.environmentname for m in W.iter_environment_specs()) | set(m.environmentname for m in T.iter_environment_specs()))
print(len(macros), len(envs))
fails = collections.defaultdict(list)
def trial(s, **opts):
    signal.alarm(5)
    try:
        r = LatexNodes2Text(**opts).latex_to_text(s)
        assert isinstance(r, str)
    except BaseException as e:
        tb = traceback.extract_tb(e.__traceback__)[-1]
        fails[(type(e).__name__, tb.filename.split('/')[-1], tb.lineno)].append(s)
    finally:
        signal.alarm(0)
def mac(m):
    return '\\'+m if not m.isalpha() else '\\'+m+' '
for m in macros:
    for tmpl in ['%s', '%s{}', '%s{a}{b}{c}{d}{e}', '%s[o]{a}{b}', '%s*[o][p]{a}{b}{c}', '\\textbf%s', '\\textbf%s{x}', '\\hat%s', '{%s}', '$%s$', '%s}', '%s]', '%s$', '\\frac%s%s', '%s\\end{x}', '%s%%c', '%s\n\n']:
        s = tmpl.replace('%s', mac(m)).replace('%%','%')
        trial(s)
for e in envs:
    for tmpl in ['\\begin{%s}\\end{%s}', '\\begin{%s}a\\end{%s}', '\\begin{%s}{a}{b}{c}x\\end{%s}', '\\begin{%s}[o]{a}{b}x & y \\\\ z\\end{%s}', '\\begin{%s}', '\\begin{%s}x', '\\end{%s}', '$\\begin{%s}x\\end{%s}$', '\\textbf\\begin{%s}x\\end{%s}', '\\begin{%s}x}\\end{%s}', '\\begin{%s}&\\end{%s}', '\\begin{%s}\\\\\\end{%s}']:
        s = tmpl.replace('%s', e)
        for mm in ['text','verbatim','with-delimiters','remove']:
            trial(s, math_mode=mm)
for k,v in sorted(fails.items(), key=lambda kv: -len(kv[1])):
    print(k, len(v), v[:6])
