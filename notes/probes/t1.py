import signal, sys
from pylatexenc.latexwalker import LatexWalker
from pylatexenc.latexnodes.parsers import LatexGeneralNodesParser
def h(*a): raise TimeoutError()
signal.signal(signal.SIGALRM, h)
for s in ['abc\\', 'abc \\', '\\', 'a{\\', '$\\', '\\begin', '\\begin{', 'a\\begin x', '\\end', '\\textbf\\']:
    for tol in (True, False):
        signal.alarm(3)
        try:
            w = LatexWalker(s, tolerant_parsing=tol)
            nodes, delta = w.parse_content(LatexGeneralNodesParser())
            print(repr(s), tol, '->', nodes)
        except BaseException as e:
            print(repr(s), tol, 'EXC', type(e).__name__, str(e)[:100])
        signal.alarm(0)
