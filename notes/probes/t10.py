import logging, warnings
logging.disable(logging.CRITICAL); warnings.simplefilter('ignore')
from pylatexenc.latexwalker import LatexWalker
from pylatexenc.latexnodes.parsers import LatexGeneralNodesParser
for s in ['a=1,=v', 'k=', 'k', 'a=1,a=2,a=3', ' a = 1 , b={x,y}', 'a==b', 'a=b=c', '=,', '{a}=b', 'a={b}c']:
    w=LatexWalker(s,tolerant_parsing=False); nl,_=w.parse_content(LatexGeneralNodesParser())
    for action in ['concatenate','first','last']:
        try:
            kv = nl.parse_keyval_content(repeated_key_aggregate_action=action)
            print(repr(s), action, {k: (v.latex_verbatim() if hasattr(v,'latex_verbatim') else ('LIST',v)) for k,v in kv.items()})
        except Exception as e:
            print(repr(s), action, 'EXC', type(e).__name__, e)
