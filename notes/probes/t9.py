import logging, warnings, random, sys, re, collections
logging.disable(logging.CRITICAL); warnings.simplefilter('ignore')
from pylatexenc.latexwalker import LatexWalker
from pylatexenc.latexnodes.parsers import LatexGeneralNodesParser
from pylatexenc.latexnodes import nodes as N
rng = random.Random(int(sys.argv[1]) if len(sys.argv)>1 else 0)
atoms = ['a','b','k','v',',','=',',',' ','{a,b}','{x=y}','\\textbf{c,d}','\\alpha ','$e,f$','%c,=\n','{}', '[',']']
fails = collections.defaultdict(list)
def toplevel_chars(nl):
    # returns list of (abs_pos, char) for chars in top-level chars nodes
    out=[]
    for n in nl:
        if n is not None and n.isNodeType(N.LatexCharsNode):
            for i,c in enumerate(n.chars): out.append((n.pos+i,c))
    return out
def check_split(s, nl, sep, keep_empty, max_split):
    try:
        parts = nl.split_at_chars(sep, keep_empty=keep_empty, max_split=max_split)
    except Exception as e:
        fails['split-exc:'+type(e).__name__+':'+str(e)[:40]].append((s,sep,keep_empty,max_split)); return
    tl = dict(toplevel_chars(nl))
    seppos = [p for p in sorted(tl) if all(tl.get(p+i)==sep[i] for i in range(len(sep)))]
    # non-overlapping greedy
    sp=[]; last=-1
    for p in seppos:
        # must be within same chars node: approximate, require contiguous
        if p>last: sp.append(p); last=p+len(sep)-1
    # each part: verbatim contiguous slice
    spans=[]
    for part in parts:
        ns=[n for n in part.nodelist if n is not None]
        for n in ns:
            if n.isNodeType(N.LatexCharsNode) and n.chars != s[n.pos:n.pos_end]:
                fails['bad-chars-pos'].append((s,sep,keep_empty,max_split,n.chars,n.pos,n.pos_end)); return
        v = part.latex_verbatim()
        if ns:
            a,b=ns[0].pos, ns[-1].pos_end
            if s[a:b]!=v: fails['noncontig'].append((s,sep,keep_empty,max_split)); return
            spans.append((a,b))
        else:
            spans.append(None)
    nsplits = len(parts)-1
    if max_split is not None and nsplits>max_split: fails['too-many-splits'].append((s,sep,keep_empty,max_split,len(parts)))
    if keep_empty:
        exp = len(sp) if max_split is None else min(len(sp), max_split)
        if nsplits != exp: fails['nsplits'].append((s,sep,keep_empty,max_split,nsplits,exp))
        # reconstruct
        rec = sep.join(p.latex_verbatim() for p in parts)
        if rec != s[nl.pos:nl.pos_end] : fails['join'].append((s,sep,max_split,rec))
    else:
        if max_split is None:
            ke = nl.split_at_chars(sep, keep_empty=True)
            exp=[p.latex_verbatim() for p in ke if p.latex_verbatim()!='' or len([n for n in p.nodelist if n is not None])]
            got=[p.latex_verbatim() for p in parts]
            if got!=exp: fails['keep_empty-mismatch'].append((s,sep,got,exp))
N_=int(sys.argv[2]) if len(sys.argv)>2 else 3000
for it in range(N_):
    s=''.join(rng.choice(atoms) for _ in range(rng.randint(0,8)))
    try:
        w=LatexWalker(s,tolerant_parsing=False); nl,_=w.parse_content(LatexGeneralNodesParser())
    except Exception as e:
        continue
    if nl.pos is None: continue
    for sep in [',','=',',,']:
        for ke in (True,False):
            for ms in (None,0,1,2,3):
                check_split(s,nl,sep,ke,ms)
    # keyval
    for action in ['concatenate','first','last','error']:
        try:
            kv = nl.parse_keyval_content(repeated_key_aggregate_action=action)
            for k,v in kv.items():
                if not isinstance(v, N.LatexNodeList): fails['kv-value-not-nodelist:'+action].append((s,k,type(v).__name__))
        except ValueError as e:
            if action!='error': fails['kv-exc:'+action+':'+type(e).__name__].append((s,))
        except N.LatexWalkerParseError:
            pass
        except Exception as e:
            fails['kv-exc:'+action+':'+type(e).__name__+str(e)[:40]].append((s,))
for k,v in fails.items():
    print(k,len(v))
    for x in sorted(v,key=lambda t: len(t[0]))[:3]: print('    ',x)
