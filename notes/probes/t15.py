import sys, random, logging, collections, itertools, warnings
logging.disable(logging.CRITICAL); warnings.simplefilter('ignore')
from pylatexenc.latexencode import UnicodeToLatexEncoder, get_builtin_uni2latex_dict
from pylatexenc.latexencode import _uni2latexmap_xml
from pylatexenc.latexwalker import LatexWalker
from pylatexenc.latexnodes import LatexWalkerParseError, nodes as N
from pylatexenc.latexnodes.parsers import LatexGeneralNodesParser
D = dict(get_builtin_uni2latex_dict()); X = dict(_uni2latexmap_xml.uni2latex)
for name,m in (('def',D),('xml',X)):
    for k,v in m.items():
        if any(c in v for c in '$%') or '\\begin' in v or '\\(' in v or '\\[' in v or '\\verb' in v:
            print('table', name, hex(k), repr(v))
        if not v.isascii(): print('NONASCII repl', name, hex(k), repr(v))
rng = random.Random(int(sys.argv[1]) if len(sys.argv)>1 else 0)
active = list('#$%&\\^_{}~') 
fails=collections.defaultdict(list)
def kinds(nl, acc):
    for n in nl:
        if n is None: continue
        acc.add(type(n).__name__)
        if n.isNodeType(N.LatexSpecialsNode): acc.add('S:'+n.specials_chars)
        na=getattr(n,'nodeargd',None)
        if na is not None and na.argnlist:
            for a in na.argnlist:
                if a is None: continue
                kinds(a if isinstance(a,N.LatexNodeList) else [a], acc)
        if getattr(n,'nodelist',None) is not None: kinds(n.nodelist, acc)
def check(s, rules, scheme, unk):
    try:
        enc=UnicodeToLatexEncoder(conversion_rules=[rules], replacement_latex_protection=scheme, unknown_char_policy=unk, unknown_char_warning=False)
        out=enc.unicode_to_latex(s)
    except ValueError:
        return
    if unk in ('replace','ignore','unihex') and not out.isascii(): fails['nonascii:'+rules].append((s,scheme,unk,out))
    try:
        w=LatexWalker(out, tolerant_parsing=False); nl,_=w.parse_content(LatexGeneralNodesParser())
    except LatexWalkerParseError as e:
        fails['noparse:'+rules+':'+scheme].append((s,out,e.msg[:50])); return
    except Exception as e:
        fails['noparse-exc:'+type(e).__name__].append((s,out)); return
    acc=set(); kinds(nl,acc)
    bad = acc & {'LatexCommentNode','LatexEnvironmentNode','LatexMathNode'}
    if bad: fails['active:'+rules+':'+scheme+':'+','.join(sorted(bad))].append((s,out))
cases=[]
for L in range(1,4):
    for t in itertools.product(active+['a',' ','b'], repeat=L): cases.append(''.join(t))
keys=sorted(set(D)|set(X))
for i in range(4000):
    cases.append(''.join(rng.choice(active+['a','b',' ','\n','e','g','i','n','d','[',']','*','|','-','`',"'",'"','<','>',chr(rng.choice(keys)),chr(rng.choice(keys)),chr(rng.randrange(0x20,0x3000)),chr(rng.randrange(0,0x20)),'\U0001F600','́']) for _ in range(rng.randint(1,8))))
print(len(cases))
for i,s in enumerate(cases):
    for rules in ('defaults','unicode-xml'):
        scheme=['none','braces','braces-all','braces-almost-all','braces-after-macro'][i%5]
        unk=['keep','replace','ignore','fail','unihex'][(i//5)%5]
        check(s,rules,scheme,unk)
        if scheme=='none': check(s,rules,'braces',unk)
for k,v in sorted(fails.items()):
    print(k,len(v))
    for x in sorted(v,key=lambda t: len(t[0]))[:4]: print('   ',x)
