import logging, warnings
logging.disable(logging.CRITICAL); warnings.simplefilter('ignore')
from pylatexenc.latex2text import LatexNodes2Text
docs = {
 'top': 'a %CMT\n b',
 'in-group': '{a %CMT\n b}',
 'in-arg': '\\textbf{a %CMT\n b}',
 'before-arg': '\\textbf %CMT\n {a}',
 'before-optarg': '\\section %CMT\n [o]{t}',
 'between-args': '\\frac{a}%CMT\n{b}',
 'in-optarg': '\\section[o %CMT\n]{t}',
 'in-env': '\\begin{itemize}\\item a %CMT\n\\end{itemize}',
 'in-math': '$a %CMT\n b$',
 'in-mathenv': '\\begin{equation}a %CMT\n b\\end{equation}',
 'after-macro': '\\alpha%CMT\n b',
 'eof': 'a %CMT',
 'in-discard': '\\label{x%CMT\n}',
 'before-token-arg': "\\'%CMT\ne",
 'in-url': '\\url{a%CMT\n}',
 'in-footnote': 'x\\footnote{n %CMT\n}',
}
for k,d in docs.items():
    for kc in (False, True):
        for mm in ('text','verbatim','with-delimiters','remove'):
            if 'math' not in k and mm!='text': continue
            try:
                t = LatexNodes2Text(keep_comments=kc, math_mode=mm).latex_to_text(d, tolerant_parsing=False)
            except Exception as e:
                t = 'EXC '+type(e).__name__+str(e)[:50]
            flag=''
            if not kc and 'CMT' in t: flag='LEAK'
            if kc and 'CMT' not in t: flag='LOST'
            print('%-16s kc=%-5s %-16s %r %s'%(k,kc,mm,t,flag))
# math / discard markers
for d in ['a $FORM$ b', 'a \\[FORM\\] b', 'a \\begin{align}FORM\\end{align} b', '\\begin{equation}\\text{a $FORM$}\\end{equation}', '\\textbf{$FORM$}', '\\section[$FORM$]{t}', '\\label{DISC} \\hspace{DISC} \\vphantom{DISC}', '\\begin{array}{c}FORM\\end{array}', '$\\begin{array}{c}FORM\\end{array}$', '\\ensuremath{FORM}', '\\frac{FORM}{2}', '\\begin{alignat}{2}FORM\\end{alignat}', '\\begin{split}FORM\\end{split}','\\begin{flalign}FORM\\end{flalign}','\\begin{dmath}FORM\\end{dmath}','\\begin{multline*}FORM\\end{multline*}']:
    for mm in ('text','verbatim','with-delimiters','remove'):
        t=LatexNodes2Text(math_mode=mm).latex_to_text(d, tolerant_parsing=False)
        print('%-50r %-16s %r'%(d,mm,t))
