import sys, logging, collections, random, warnings, itertools
logging.disable(logging.CRITICAL); warnings.simplefilter('ignore')
from pylatexenc.macrospec import MacroSpec, EnvironmentSpec, LatexContextDb, MacroStandardArgsParser, std_macro
from pylatexenc.latexwalker import LatexWalker
from pylatexenc.latexnodes import LatexWalkerParseError, nodes as N
from pylatexenc.latexnodes.parsers import LatexGeneralNodesParser
rng=random.Random(1)
def dump(n):
    if n is None: return None
    if isinstance(n,(N.LatexNodeList,list)): return [dump(x) for x in n]
    t=type(n).__name__; d=[t,n.pos,n.pos_end]
    if t=='LatexCharsNode': d.append(n.chars)
    if t=='LatexCommentNode': d+=[n.comment]
    if t=='LatexGroupNode': d+=[tuple(n.delimiters),dump(n.nodelist)]
    if t=='LatexMacroNode': d+=[n.macroname,[dump(a) for a in n.nodeargd.argnlist] if n.nodeargd else [], dump(n.nodeoptarg), dump(n.nodeargs) or []]
    if t=='LatexMathNode': d+=[tuple(n.delimiters),dump(n.nodelist)]
    if t=='LatexSpecialsNode': d+=[n.specials_chars]
    return d
atoms=['*','[o]','{a}','b',' ','\n','%c\n','{','}','[',']','\\foo','x','$y$','\n\n','**','[p[q]r]','{{z}}','\\alpha']
fails=collections.defaultdict(list); st=collections.Counter()
specs=[''.join(t) for L in range(0,5) for t in itertools.product('*[{',repeat=L)]
for argspec in specs:
    dbs={}
    for name,m in [('new',MacroSpec('foo',argspec)),('legacy',MacroSpec('foo',args_parser=MacroStandardArgsParser(argspec)))]:
        db=LatexContextDb(); db.add_context_category('x',macros=[m, MacroSpec('alpha','')]); db.set_unknown_macro_spec(MacroSpec('')); dbs[name]=db
    for it in range(40):
        s='\\foo'+''.join(rng.choice(atoms) for _ in range(rng.randint(0,6)))
        for tol in (False,True):
            res={}
            for name,db in dbs.items():
                try:
                    w=LatexWalker(s,latex_context=db,tolerant_parsing=tol); nl,_=w.parse_content(LatexGeneralNodesParser()); res[name]=('ok',dump(nl))
                except LatexWalkerParseError as e: res[name]=('err',None)
                except Exception as e: res[name]=('EXC',type(e).__name__+str(e)[:40])
            st['cmp']+=1
            if res['new']!=res['legacy']: fails[(res['new'][0],res['legacy'][0])].append((argspec,s,tol,res['new'][1],res['legacy'][1]))
print(st)
for k,v in fails.items():
    print(k,len(v))
    for x in sorted(v,key=lambda t:len(t[1]))[:5]: print('   ',str(x)[:700])
