import sys, logging, collections, warnings, unicodedata, random
logging.disable(logging.CRITICAL); warnings.simplefilter('ignore')
from pylatexenc.latexencode import UnicodeToLatexEncoder, get_builtin_uni2latex_dict
from pylatexenc.latex2text import LatexNodes2Text
D = dict(get_builtin_uni2latex_dict())
schemes=['none','braces','braces-all','braces-almost-all','braces-after-macro']
encs={sc:UnicodeToLatexEncoder(replacement_latex_protection=sc, unknown_char_warning=False) for sc in schemes}
l2ts={'default':LatexNodes2Text(), 'strict':LatexNodes2Text(strict_latex_spaces=True)}
def rt(s, sc, pol):
    out=encs[sc].unicode_to_latex(s)
    try: return l2ts[pol].latex_to_text(out, tolerant_parsing=False), out
    except Exception as e: return 'EXC:'+type(e).__name__, out
inv=[]
for cp in sorted(D):
    ch=chr(cp)
    if unicodedata.normalize('NFC',ch)!=ch: continue
    if all(rt(ch,sc,pol)[0]==ch for sc in schemes[1:] for pol in l2ts): inv.append(ch)
ascii_ok=[chr(c) for c in range(32,127) if chr(c) not in D or chr(c) in inv]
print(len(inv), ''.join(ascii_ok))
rng=random.Random(int(sys.argv[1]) if len(sys.argv)>1 else 0)
fails=collections.defaultdict(list)
N=int(sys.argv[2]) if len(sys.argv)>2 else 5000
pool_ascii=[c for c in ascii_ok if c not in '`\'-']  # avoid ligature makers for now
for it in range(N):
    k=rng.randint(1,6)
    s=''.join(rng.choice(inv) if rng.random()<0.5 else rng.choice(pool_ascii+[' ','\n',' ','a','b','z']) for _ in range(k))
    s=unicodedata.normalize('NFC',s)
    for sc in schemes[1:]:
        for pol in l2ts:
            back,out=rt(s,sc,pol)
            if back!=s:
                fails[(sc,pol)].append((s,out,back))
for k,v in fails.items():
    print(k,len(v))
    for x in sorted(v,key=lambda t:len(t[0]))[:6]: print('    ',x)
