import sys, itertools, collections, logging, random
logging.disable(logging.CRITICAL)
from pylatexenc.latexnodes import LatexTokenReader, ParsingState, LatexWalkerEndOfStream, LatexWalkerTokenParseError
rng = random.Random(int(sys.argv[1]) if len(sys.argv)>1 else 0)
field_choices = {
 'in_math_mode': [True, False],
 'math_mode_delimiter': [None, '$', '$$', r'\(', r'\[', '€', 'align'],
 'latex_group_delimiters': [[('{','}')], [('{','}'),('[',']')], [('<','>')], [('{','}'),('(',')')]],
 'latex_inline_math_delimiters': [[('$','$'),(r'\(',r'\)')], [('$','€')], [('€','€')], [(r'\(',r'\)')], [('$','$')]],
 'latex_display_math_delimiters': [[('$$','$$'),(r'\[',r'\]')], [('$$','€€')], [(r'\[',r'\]')], [('€€','$$')]],
 'enable_double_newline_paragraphs':[True,False],'enable_macros':[True,False],'enable_environments':[True,False],
 'enable_comments':[True,False],'enable_groups':[True,False],'enable_math':[True,False],
 'macro_escape_char':['\\','!'],'comment_start':['%','#'],'forbidden_characters':['','a','$'],
}
alphabet = ['a',' ','\n','{','}','[',']','<','>','(',')','$','€','\\','!','%','#','\\(','\\)','\\[','\\]','$$','€€']
def toks(s, ps):
    tr = LatexTokenReader(s, tolerant_parsing=True)
    out=[]
    while True:
        try:
            t = tr.next_token(ps)
        except LatexWalkerEndOfStream as e:
            out.append(('EOS', e.final_space)); break
        except Exception as e:
            out.append(('EXC', type(e).__name__, str(e)[:50])); break
        out.append((t.tok, t.arg if isinstance(t.arg,str) else '<spec>', t.pos, t.pos_end, t.pre_space))
        if len(out) > len(s)+3: out.append('LOOP'); break
    return out
fails = collections.defaultdict(list)
N=int(sys.argv[2]) if len(sys.argv)>2 else 3000
for it in range(N):
    ps = ParsingState()
    chain=[]
    for step in range(rng.randint(1,4)):
        ks = rng.sample(list(field_choices), rng.randint(1,3))
        kw = {k: rng.choice(field_choices[k]) for k in ks}
        before = ps.get_fields()
        try:
            ps2 = ps.sub_context(**kw)
        except Exception as e:
            fails['subctx-exc:'+type(e).__name__].append(kw); break
        if ps.get_fields() != before: fails['parent-mutated'].append(kw)
        chain.append(kw); ps = ps2
    else:
        fresh = ParsingState(**ps.get_fields())
        if fresh.get_fields() != ps.get_fields():
            fails['fields-differ'].append(chain); continue
        for j in range(30):
            s = ''.join(rng.choice(alphabet) for _ in range(rng.randint(1,6)))
            a, b = toks(s, ps), toks(s, fresh)
            if a != b:
                fails['token-diff'].append((chain, s, a, b)); break
for k,v in fails.items():
    print(k, len(v))
    for x in v[:3]: print('    ', x)
