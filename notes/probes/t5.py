import sys, itertools, collections, logging, random
logging.disable(logging.CRITICAL)
from pylatexenc.latexnodes import LatexTokenReader, ParsingState, LatexWalkerEndOfStream, LatexWalkerTokenParseError
from pylatexenc.latexwalker import get_default_latex_context_db
ctx = get_default_latex_context_db()
alphabet = ['a',' ','\n','{','}','$','\\','%','[',']','~','`','-','(',')','b','e','g','i','n','d','&']
configs = []
for ctxv in (None, ctx):
  for kw in [dict(), dict(in_math_mode=True, math_mode_delimiter='$'), dict(in_math_mode=True, math_mode_delimiter='$$'),
           dict(in_math_mode=True, math_mode_delimiter=r'\('), dict(in_math_mode=True),
           dict(enable_double_newline_paragraphs=False), dict(enable_comments=False), dict(enable_macros=False),
           dict(enable_environments=False), dict(enable_groups=False), dict(enable_math=False), dict(enable_specials=False),
           dict(latex_group_delimiters=[('{','}'),('[',']')]), dict(forbidden_characters='a$'),
           dict(enable_macros=False, enable_environments=True)]:
    configs.append(dict(latex_context=ctxv, **kw))
fails = collections.defaultdict(list)
def check(s, cfg, tol):
    ps = ParsingState(s=s, **cfg)
    tr = LatexTokenReader(s, tolerant_parsing=tol)
    out = ''
    n = 0
    while True:
        p0 = tr.cur_pos()
        try:
            pk = tr.peek_token(ps)
        except LatexWalkerEndOfStream as e:
            out += e.final_space
            break
        except LatexWalkerTokenParseError as e:
            if tol: fails['tokerr-in-tolerant'].append((s,)); return
            return  # strict: fine
        except Exception as e:
            fails['exc:'+type(e).__name__+':'+str(e)[:40]].append((s,cfg)); return
        if tr.cur_pos() != p0:
            fails['peek-moved'].append((s, str(cfg)[:60], tol))
            tr.move_to_pos_chars(p0)
        tok = tr.next_token(ps)
        if not (tok == pk): fails['peek!=next'].append((s,))
        if tr.cur_pos() <= p0:
            fails['no-progress'].append((s, str({k:v for k,v in cfg.items() if k!='latex_context'}), tol)); return
        if tok.pos - len(tok.pre_space) != p0: fails['prespace-gap'].append((s,str(cfg)[:80]))
        if tr.cur_pos() != tok.pos_end: fails['posend!=cur'].append((s,))
        out += tok.pre_space + s[tok.pos:tok.pos_end]
        # rewind
        p1 = tr.cur_pos()
        tr.move_to_token(tok)
        if tr.cur_pos() != p0: fails['rewind-pos'].append((s,))
        try:
            tok2 = tr.next_token(ps)
            if not (tok2 == tok): fails['rewind-neq'].append((s,))
        except Exception as e:
            fails['rewind-exc'].append((s,))
        tr.move_to_pos_chars(p1)
        n += 1
        if n > len(s)+1:
            fails['too-many-reads'].append((s,)); return
    if out != s:
        fails['lossy'].append((s, out, str({k:v for k,v in cfg.items() if k!='latex_context'}), tol))
cnt=0
for L in range(0,4):
    for t in itertools.product(alphabet, repeat=L):
        s=''.join(t)
        for cfg in configs:
            for tol in (False, True):
                check(s,cfg,tol); cnt+=1
rng=random.Random(1)
for i in range(3000):
    s=''.join(rng.choice(alphabet+['\\begin{a}','\\end{a}','\\begin','\n\n','$$','\\(','\\)','---',"''"]) for _ in range(rng.randint(4,12)))
    for cfg in configs:
        for tol in (False,True):
            check(s,cfg,tol); cnt+=1
print(cnt)
for k,v in fails.items():
    print(k, len(v), v[:4])
