import os, tempfile, shutil, logging, itertools
logging.disable(logging.CRITICAL)
from pylatexenc.latex2text import LatexNodes2Text
root = tempfile.mkdtemp(prefix='c15_')
try:
    base = os.path.join(root, 'base'); os.makedirs(os.path.join(base,'sub'))
    os.makedirs(os.path.join(root,'base2')); os.makedirs(os.path.join(root,'other'))
    def w(p, c): open(os.path.join(root,p),'w').write(c)
    w('base/in.tex','INSIDE-in'); w('base/sub/deep.tex','INSIDE-deep'); w('base/noext','INSIDE-noext')
    w('base2/sib.tex','OUTSIDE-sib'); w('other/out.tex','OUTSIDE-out'); w('secret','OUTSIDE-secret'); w('base.tex', 'OUTSIDE-basetex')
    os.symlink(os.path.join(root,'other/out.tex'), os.path.join(base,'lnk.tex'))      # file symlink out
    os.symlink(os.path.join(root,'other'), os.path.join(base,'lnkdir'))               # dir symlink out
    os.symlink(os.path.join(base,'in.tex'), os.path.join(base,'lnkin.tex'))            # symlink inside
    os.symlink(os.path.join(root,'other/out.tex'), os.path.join(base,'ext.tex'))       # only exists with ext
    os.symlink(base, os.path.join(root,'other','backin'))                               # outside dir -> inside
    names = ['in','in.tex','sub/deep','sub/../in','./in','../base/in','../base2/sib','../base2/sib.tex','../other/out','../secret',
             os.path.join(root,'secret'), os.path.join(root,'base2/sib'), os.path.join(base,'in'), 'lnk','lnk.tex','lnkdir/out','lnkin','ext','noext',
             '../other/backin/in', '..', '.', '', '../base', 'sub/', '../base.tex', '../base']
    for bd in (base, base+'/', os.path.join(root,'other','backin')):
        l2t = LatexNodes2Text(); l2t.set_tex_input_directory(bd, strict_input=True)
        for n in names:
            try:
                c = l2t.read_input_file(n)
            except Exception as e:
                c = 'EXC '+type(e).__name__+str(e)[:50]
            flag = 'LEAK!!' if 'OUTSIDE' in c else ''
            print(bd.replace(root,'R'), repr(n.replace(root,'R')), repr(c), flag)
finally:
    shutil.rmtree(root)
