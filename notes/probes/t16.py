import sys, logging, collections, warnings, unicodedata
logging.disable(logging.CRITICAL); warnings.simplefilter('ignore')
from pylatexenc.latexencode import UnicodeToLatexEncoder, get_builtin_uni2latex_dict
from pylatexenc.latexencode import _uni2latexmap_xml
from pylatexenc.latexwalker import LatexWalker
from pylatexenc.latexnodes import LatexWalkerParseError
from pylatexenc.latexnodes.parsers import LatexGeneralNodesParser
D = dict(get_builtin_uni2latex_dict()); X = dict(_uni2latexmap_xml.uni2latex)
def parses(out):
    try:
        LatexWalker(out, tolerant_parsing=False).parse_content(LatexGeneralNodesParser()); return True
    except LatexWalkerParseError: return False
for name,m in (('defaults',D),('unicode-xml',X)):
    bad=collections.defaultdict(list)
    for scheme in ['none','braces','braces-all','braces-almost-all','braces-after-macro']:
        enc=UnicodeToLatexEncoder(conversion_rules=[name], replacement_latex_protection=scheme, unknown_char_warning=False)
        for cp in sorted(m):
            ch=chr(cp)
            if unicodedata.normalize('NFC',ch)!=ch: continue
            for ctx in ['%s','%sa','a%s}'.replace('}',''),'{%s}','%s %s','%s$']:
                s=ctx.replace('%s',ch)
                out=enc.unicode_to_latex(s)
                if not parses(out): bad[cp].append((scheme,ctx,out))
    print(name, 'bad code points:', len(bad))
    for cp,v in list(bad.items())[:80]:
        print('   U+%04X %s %r'%(cp, unicodedata.category(chr(cp)), m[cp]), len(v), v[0][2][:40])
