import sys, logging, collections, warnings, unicodedata, random
logging.disable(logging.CRITICAL); warnings.simplefilter('ignore')
from pylatexenc.latexencode import UnicodeToLatexEncoder, get_builtin_uni2latex_dict
from pylatexenc.latex2text import LatexNodes2Text
D = dict(get_builtin_uni2latex_dict())
schemes=['none','braces','braces-all','braces-almost-all','braces-after-macro']
encs={sc:UnicodeToLatexEncoder(replacement_latex_protection=sc, unknown_char_warning=False) for sc in schemes}
l2ts={'default':LatexNodes2Text(), 'strict':LatexNodes2Text(strict_latex_spaces=True)}
def rt(s, sc, pol):
    out=encs[sc].unicode_to_latex(s)
    try:
        return l2ts[pol].latex_to_text(out, tolerant_parsing=False), out
    except Exception as e:
        return 'EXC:'+type(e).__name__, out
inv=[]; non=collections.defaultdict(list)
for cp in sorted(D):
    ch=chr(cp)
    if unicodedata.normalize('NFC',ch)!=ch: non['not-NFC'].append(cp); continue
    ok=True; why=None
    for sc in schemes:
        for pol in l2ts:
            if sc=='none': continue
            back,out=rt(ch,sc,pol)
            if back!=ch: ok=False; why=(sc,pol,out,back); break
        if not ok: break
    if ok: inv.append(cp)
    else: non[why[3] if len(why[3])<6 else 'other'].append((hex(cp),D[cp],why[3]))
print('invertible', len(inv), 'of', len(D))
for k,v in sorted(non.items(), key=lambda kv:-len(kv[1])):
    print(repr(k), len(v), v[:6])
