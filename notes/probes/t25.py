import sys, logging, collections, random, warnings
logging.disable(logging.CRITICAL); warnings.simplefilter('ignore')
from pylatexenc.latexwalker import LatexWalker
from pylatexenc.latexnodes import LatexWalkerParseError, LatexWalkerEndOfStream, LatexWalkerError, nodes as N, parsers as P, LatexTokenReader
rng=random.Random(int(sys.argv[1]) if len(sys.argv)>1 else 0)
def dump(n):
    if n is None: return None
    if isinstance(n,(N.LatexNodeList,list)): return [dump(x) for x in n]
    t=type(n).__name__; d=[t,n.pos,n.pos_end]
    if t=='LatexCharsNode': d.append(n.chars)
    if t=='LatexCommentNode': d+=[n.comment,n.comment_post_space]
    if t=='LatexGroupNode': d+=[tuple(n.delimiters),dump(n.nodelist)]
    if t=='LatexMacroNode': d+=[n.macroname,n.macro_post_space,[dump(a) for a in n.nodeargd.argnlist] if n.nodeargd else None]
    if t=='LatexEnvironmentNode': d+=[n.environmentname,[dump(a) for a in n.nodeargd.argnlist] if n.nodeargd else None,dump(n.nodelist)]
    if t=='LatexMathNode': d+=[n.displaytype,tuple(n.delimiters),dump(n.nodelist)]
    if t=='LatexSpecialsNode': d+=[n.specials_chars]
    return d
atoms=['a','b',' ','\n','\n\n','{','}','[',']','(',')','<','>','$','$$','\\(','\\)','%c\n','~','{x}','[y]','\\alpha ','\\textbf','\\textbf{q}','\\begin{itemize}','\\end{itemize}','\\begin{a}b\\end{a}','\\item','\\\\','\\frac','x','\\verb|x|']
fails=collections.defaultdict(list); st=collections.Counter()
def run(f):
    try: return ('ok',f())
    except LatexWalkerParseError as e: return ('err',None)
    except LatexWalkerEndOfStream as e: return ('eos',None)
    except Exception as e: return ('EXC',type(e).__name__+':'+str(e)[:60])
for it in range(int(sys.argv[2]) if len(sys.argv)>2 else 3000):
    s=''.join(rng.choice(atoms) for _ in range(rng.randint(1,8)))
    tol=rng.random()<.4
    w=LatexWalker(s,tolerant_parsing=tol)
    for pos in range(len(s)+1):
        # --- get_token
        ibc=rng.choice([None,[('[',']')],[('<','>'),('(',')')]]); envs=rng.choice([True,False])
        def new_tok():
            ps=w.make_parsing_state()
            kw={}
            if ibc: kw['latex_group_delimiters']=ps.latex_group_delimiters+ibc
            if not envs: kw['enable_environments']=False
            if kw: ps=ps.sub_context(**kw)
            t=LatexTokenReader(s,tolerant_parsing=tol); t.move_to_pos_chars(pos); tk=t.peek_token(ps)
            return (tk.tok, tk.arg if isinstance(tk.arg,str) else tk.arg.specials_chars, tk.pos, tk.pos_end, tk.pre_space, tk.post_space)
        def old_tok():
            tk=w.get_token(pos,include_brace_chars=ibc,environments=envs)
            return (tk.tok, tk.arg if isinstance(tk.arg,str) else tk.arg.specials_chars, tk.pos, tk.pos_end, tk.pre_space, tk.post_space)
        a,b=run(old_tok),run(new_tok)
        st['tok']+=1
        if a!=b: fails['get_token'].append((s,pos,tol,a,b))
        # --- braced group
        bt=rng.choice(['{','[','(','<',('<','>')])
        def old_bg():
            n,p,l=w.get_latex_braced_group(pos,brace_type=bt); return (dump(n),p,l)
        def new_bg():
            d={'{':('{','}'),'[':('[',']'),'(':('(',')'),'<':('<','>')}.get(bt,bt) if isinstance(bt,str) else tuple(bt)
            tr=w.make_token_reader(pos=pos)
            n,_=w.parse_content(P.LatexDelimitedGroupParser(delimiters=d,allow_pre_space=True),token_reader=tr,parsing_state=w.make_parsing_state())
            if n is None: return (None,pos,0)
            return (dump(n),n.pos,n.pos_end-n.pos)
        a,b=run(old_bg),run(new_bg); st['bg']+=1
        if a!=b: fails['braced_group'].append((s,pos,tol,bt,a,b))
        # --- optional arg
        def old_oa():
            r=w.get_latex_maybe_optional_arg(pos)
            if r is None: return None
            n,p,l=r; return (dump(n),p,l)
        def new_oa():
            tr=w.make_token_reader(pos=pos)
            n,_=w.parse_content(P.LatexOptionalSquareBracketsParser(),token_reader=tr,parsing_state=w.make_parsing_state())
            if n is None: return None
            return (dump(n),n.pos,n.pos_end-n.pos)
        a,b=run(old_oa),run(new_oa); st['oa']+=1
        if a!=b: fails['optional_arg'].append((s,pos,tol,a,b))
        # --- expression
        sb=rng.choice([None,True,False])
        def old_ex():
            n,p,l=w.get_latex_expression(pos,strict_braces=sb); return (dump(n),p,l)
        def new_ex():
            tr=w.make_token_reader(pos=pos)
            n,_=w.parse_content(P.LatexExpressionParser(return_full_node_list=False,single_token_requiring_arg_is_error=not tol,allow_pre_space=True,allow_pre_comments=True),token_reader=tr,parsing_state=w.make_parsing_state())
            if n is not None and (n.isNodeType(N.LatexMacroNode) or n.isNodeType(N.LatexSpecialsNode)): n.nodeargd=None
            return (dump(n),n.pos,n.pos_end-n.pos) if n is not None else None
        a,b=run(old_ex),run(new_ex); st['ex']+=1
        if a[0]=='ok' and b[0]=='ok' and a!=b and b[1] is not None: fails['expression'].append((s,pos,tol,sb,a,b))
        if a[0]=='EXC' or (a[0]=='err' and b[0]=='ok') : fails['expression-fail'].append((s,pos,tol,sb,a,b))
        # --- environment
        def old_env():
            n,p,l=w.get_latex_environment(pos,environmentname=None); return (dump(n),p,l)
        def new_env():
            tr=w.make_token_reader(pos=pos)
            nl,_=w.parse_content(P.LatexSingleNodeParser(),token_reader=tr,parsing_state=w.make_parsing_state())
            if not nl or len(nl)!=1 or not nl[0].isNodeType(N.LatexEnvironmentNode): raise LatexWalkerParseError('x')
            n=nl[0]; return (dump(n),n.pos,n.pos_end-n.pos)
        a,b=run(old_env),run(new_env); st['env']+=1
        if a!=b: fails['environment'].append((s,pos,tol,a,b))
print(st)
for k,v in fails.items():
    print(k,len(v))
    for x in sorted(v,key=lambda t:len(t[0]))[:4]: print('   ',str(x)[:500])
