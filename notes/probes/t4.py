import signal, sys, logging, collections, traceback, random, itertools
logging.disable(logging.CRITICAL)
from pylatexenc.latexwalker import LatexWalker, get_default_latex_context_db as wdb
from pylatexenc.latexnodes import LatexWalkerParseError
from pylatexenc.latexnodes.parsers import LatexGeneralNodesParser
from pylatexenc.latex2text import LatexNodes2Text, get_default_latex_context_db as tdb
def h(*a): raise TimeoutError()
signal.signal(signal.SIGALRM, h)
W = wdb(); T = tdb()
macros = sorted(set(m.macroname for m in W.iter_macro_specs()) | set(m.macroname for m in T.iter_macro_specs()))
envs = sorted(set(m.environmentname for m in W.iter_environment_specs()) | set(m.environmentname for m in T.iter_environment_specs()))
seed = int(sys.argv[1]) if len(sys.argv)>1 else 0
N = int(sys.argv[2]) if len(sys.argv)>2 else 20000
rng = random.Random(seed)
atoms = ['a','b',' ','\n','\n\n','{','}','[',']','$','$$','\\(','\\)','\\[','\\]','%','%c\n','\\','~','&','``',"''",'--','---','*','^','_','#','|','<','>','\\\\','\\begin','\\end','\\begin{','\\end{','{x}','[y]','\t',',','=','é','\\verb','\\verb|x|','\\verb|','|']
def atom():
    r = rng.random()
    if r < 0.55: return rng.choice(atoms)
    if r < 0.8:
        m = rng.choice(macros); return '\\'+m+rng.choice(['',' ','{','*','['])
    e = rng.choice(envs)
    return rng.choice(['\\begin{%s}','\\end{%s}','\\begin{%s}x\\end{%s}']).replace('%s', e)
fails = collections.defaultdict(list)
strictfails = collections.defaultdict(list)
opts_list = [dict(), dict(math_mode='verbatim'), dict(math_mode='with-delimiters', keep_comments=True), dict(math_mode='remove', strict_latex_spaces=True), dict(fill_text=20, keep_braced_groups=True), dict(strict_latex_spaces='based-on-source')]
def rec(d, e, s):
    tb = traceback.extract_tb(e.__traceback__)[-1]
    d[(type(e).__name__, tb.filename.split('/')[-1], tb.lineno, tb.name)].append(s)
cases = []
# bounded exhaustive over small alphabet
small = ['a',' ','{','}','$','\\','%','\n','[',']','&','~']
for L in range(0,5):
    for t in itertools.product(small, repeat=L):
        cases.append(''.join(t))
for i in range(N):
    cases.append(''.join(atom() for _ in range(rng.randint(1,8))))
print(len(cases))
for i,s in enumerate(cases):
    signal.alarm(5)
    try:
        r = LatexNodes2Text(**opts_list[i % len(opts_list)]).latex_to_text(s)
        assert isinstance(r, str)
    except BaseException as e:
        rec(fails, e, s)
    finally:
        signal.alarm(0)
    signal.alarm(5)
    try:
        w = LatexWalker(s, tolerant_parsing=False)
        try:
            nodes, _ = w.parse_content(LatexGeneralNodesParser())
        except LatexWalkerParseError as e:
            ok = e.pos is not None and 0 <= e.pos <= len(s)
            if ok:
                ln, col = w.pos_to_lineno_colno(e.pos)
                ok = (e.lineno, e.colno) == (ln, col)
            if not ok:
                strictfails[('BADPOS', e.pos, e.lineno, e.colno, e.msg[:40])].append(s)
    except BaseException as e:
        rec(strictfails, e, s)
    finally:
        signal.alarm(0)
print("TOLERANT/L2T failures")
for k,v in sorted(fails.items(), key=lambda kv: -len(kv[1])):
    print(' ', k, len(v), sorted(v, key=len)[:5])
print("STRICT failures")
for k,v in sorted(strictfails.items(), key=lambda kv: -len(kv[1])):
    print(' ', k, len(v), sorted(v, key=len)[:5])
