"""Small helpers shared by the checks (only public pylatexenc API is used)."""
import logging, warnings
logging.disable(logging.CRITICAL)
warnings.simplefilter('ignore')

from pylatexenc.latexwalker import LatexWalker, get_default_latex_context_db
from pylatexenc.latexnodes import (
    LatexWalkerParseError, LatexWalkerError,
)
from pylatexenc.latexnodes.parsers import LatexGeneralNodesParser


_DEFCTX = []


def default_ctx():
    if not _DEFCTX:
        _DEFCTX.append(get_default_latex_context_db())
    return _DEFCTX[0]


def walker(s, ctx=None, tolerant=False, psopts=None, **kw):
    """psopts: fields of a non-default ParsingState the walker starts from (LatexWalker(default_parsing_state=..))."""
    if ctx is None:
        ctx = default_ctx()
    if psopts:
        from pylatexenc.latexnodes import ParsingState
        o = dict(psopts)
        for k in ('latex_group_delimiters', 'latex_inline_math_delimiters', 'latex_display_math_delimiters'):
            if k in o:
                o[k] = [tuple(x) for x in o[k]]
        ctx.freeze()
        return LatexWalker(s, default_parsing_state=ParsingState(s=s, latex_context=ctx, **o), tolerant_parsing=tolerant, **kw)
    return LatexWalker(s, latex_context=ctx, tolerant_parsing=tolerant, **kw)


def parse(s, ctx=None, tolerant=False, parser=None, **kw):
    """Parse the whole string into a node list with the general nodes parser (a given parser object is
    re-used as is)."""
    lw = walker(s, ctx, tolerant, **kw)
    nodes, _ = lw.parse_content(parser if parser is not None else LatexGeneralNodesParser())
    return nodes


def ddmin_string(s, still_fails, max_tests=400):
    """Delta-debugging shrink of a string: remove chunks while `still_fails(s)`."""
    tests = [0]

    def test(x):
        tests[0] += 1
        try:
            return bool(still_fails(x))
        except Exception:
            return False
    n = 2
    while len(s) >= 2 and tests[0] < max_tests:
        chunk = max(1, len(s) // n)
        reduced = False
        i = 0
        while i < len(s) and tests[0] < max_tests:
            cand = s[:i] + s[i + chunk:]
            if cand != s and test(cand):
                s = cand
                n = max(n - 1, 2)
                reduced = True
            else:
                i += chunk
        if not reduced:
            if chunk == 1:
                break
            n = min(len(s), n * 2)
    return s


def ref_lineno_colno(s, pos, line_number_offset=1, first_line_column_offset=0, column_offset=0):
    """Reference model for positions -> (line, column), written from the documentation:
    lines are separated by '\\n'; the first line has number `line_number_offset`; the
    column is the offset from the start of the line plus `column_offset`, plus
    `first_line_column_offset` on the first line."""
    line_index = s.count('\n', 0, pos)
    line_start = s.rfind('\n', 0, pos) + 1
    col = pos - line_start + column_offset
    if line_index == 0:
        col += first_line_column_offset
    return (line_index + line_number_offset, col)


_CONVERTERS = {}


def converter(opts, src='', rec=None):
    """A LatexNodes2Text object for these options: a fresh one, or (for every second source, decided by its length) one
    object per option set that is kept for the life of the process and has converted other documents before -- the
    conversion of a document must not depend on what the converter object converted earlier."""
    import json
    from pylatexenc.latex2text import LatexNodes2Text
    if len(src) % 2:
        return LatexNodes2Text(**opts)
    key = json.dumps(opts, sort_keys=True, default=str)
    if key not in _CONVERTERS:
        _CONVERTERS[key] = LatexNodes2Text(**opts)
    elif rec is not None:
        rec.monitor('conversions_on_reused_converter')
    return _CONVERTERS[key]


def drop_converters():
    """Forget the kept converter objects (after the harness itself interrupted a conversion: step budget, watchdog,
    recursion limit -- the object may have been left half-way)."""
    _CONVERTERS.clear()
