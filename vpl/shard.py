"""Child process entry: run one shard of a check and dump what it observed."""
import sys, os, json, logging, warnings, importlib, traceback, random


def main(argv):
    pid, fin, fout = argv
    logging.disable(logging.CRITICAL)
    warnings.simplefilter('ignore')
    cov = None
    if os.environ.get('VERIF_COV'):
        # reach diagnostic only (tools/reach.sh): which lines of the library the workload executes
        import coverage
        os.makedirs(os.environ['VERIF_COV'], exist_ok=True)
        cov = coverage.Coverage(data_file=os.path.join(os.environ['VERIF_COV'], '%s.%d' % (pid, os.getpid())),
                                include=[os.path.join(os.path.realpath(os.environ.get('VERIF_REPO', '/repo')),
                                                      'pylatexenc', '*')])
        cov.start()
    import pylatexenc
    repo = os.path.realpath(os.environ.get('VERIF_REPO', '/repo'))
    where = os.path.realpath(pylatexenc.__file__)
    if not where.startswith(repo + os.sep):
        sys.stderr.write('pylatexenc imported from %s, not from %s\n' % (where, repo))
        return 3
    from .rec import Recorder
    desc = json.load(open(fin))
    rec = Recorder(desc.get('name', '-'))
    chk = importlib.import_module('vpl.checks.' + pid.lower())
    rc = 0
    try:
        chk.setup(rec)
        chk.run_shard(desc, rec)
    except BaseException:
        sys.stderr.write(traceback.format_exc())
        rc = 4
    if cov is not None:
        cov.stop()
        cov.save()
    with open(fout, 'w') as f:
        json.dump(rec.dump(), f, default=repr)
    return rc


def rng_for(desc, extra=''):
    return random.Random('%s/%s/%s/%s' % (desc.get('seed', 0), desc.get('check', ''),
                                         desc.get('name', ''), extra))


if __name__ == '__main__':
    sys.exit(main(sys.argv[1:]))
