"""Child process entry: run one shard of a check and dump what it observed."""
import sys, os, json, logging, warnings, importlib, traceback, random


def main(argv):
    pid, fin, fout = argv
    logging.disable(logging.CRITICAL)
    warnings.simplefilter('ignore')
    cov = None
    if os.environ.get('VERIF_COV'):
        # reach diagnostic only (tools/reach.sh): which lines of the library the workload executes
        import coverage
        os.makedirs(os.environ['VERIF_COV'], exist_ok=True)
        cov = coverage.Coverage(data_file=os.path.join(os.environ['VERIF_COV'], '%s.%d' % (pid, os.getpid())),
                                include=[os.path.join(os.path.realpath(os.environ.get('VERIF_REPO', '/repo')),
                                                      'pylatexenc', '*')])
        cov.start()
    argreach = None
    if os.environ.get('VERIF_ARGREACH'):
        # reach diagnostic only (tools/argreach.sh): which values every parameter of the library's functions takes
        argreach = _ArgReach(os.path.join(os.path.realpath(os.environ.get('VERIF_REPO', '/repo')), 'pylatexenc'))
        sys.setprofile(argreach)
    import pylatexenc
    repo = os.path.realpath(os.environ.get('VERIF_REPO', '/repo'))
    where = os.path.realpath(pylatexenc.__file__)
    if not where.startswith(repo + os.sep):
        sys.stderr.write('pylatexenc imported from %s, not from %s\n' % (where, repo))
        return 3
    from .rec import Recorder
    desc = json.load(open(fin))
    rec = Recorder(desc.get('name', '-'))
    chk = importlib.import_module('vpl.checks.' + pid.lower())
    rc = 0
    try:
        chk.setup(rec)
        chk.run_shard(desc, rec)
    except BaseException:
        sys.stderr.write(traceback.format_exc())
        rc = 4
    if cov is not None:
        cov.stop()
        cov.save()
    if argreach is not None:
        sys.setprofile(None)
        os.makedirs(os.environ['VERIF_ARGREACH'], exist_ok=True)
        with open(os.path.join(os.environ['VERIF_ARGREACH'], '%s.%d.json' % (pid, os.getpid())), 'w') as f:
            json.dump({k: {a: sorted(v) for a, v in d.items()} for k, d in argreach.seen.items()}, f)
    with open(fout, 'w') as f:
        json.dump(rec.dump(), f, default=repr)
    return rc


class _ArgReach(object):
    """sys.setprofile callback: per function of the library, the set of value classes seen for each parameter."""
    def __init__(self, root):
        self.root = root
        self.seen = {}
        self.skip = set()

    @staticmethod
    def bucket(v):
        if v is None or v is True or v is False:
            return repr(v)
        if isinstance(v, int):
            return 'int:%d' % v if -1 <= v <= 3 else 'int'
        if isinstance(v, str):
            return 'str:%r' % v if len(v) <= 12 else 'str'
        if isinstance(v, (list, tuple, dict, set)):
            return '%s[%s]' % (type(v).__name__, 'empty' if not v else 'n')
        if callable(v) and not isinstance(v, type):
            return 'callable'
        return type(v).__name__

    def __call__(self, frame, event, arg):
        if event != 'call':
            return
        co = frame.f_code
        if co in self.skip:
            return
        fn = co.co_filename
        if not fn.startswith(self.root):
            self.skip.add(co)
            return
        n = co.co_argcount + co.co_kwonlyargcount
        key = '%s:%s:%d' % (fn[len(self.root) + 1:], co.co_name, co.co_firstlineno)
        d = self.seen.setdefault(key, {})
        loc = frame.f_locals
        names = list(co.co_varnames[:n])
        if co.co_flags & 0x08:      # **kwargs
            kwname = co.co_varnames[n + (1 if co.co_flags & 0x04 else 0)]
            for k, v in (loc.get(kwname) or {}).items():
                s = d.setdefault('**' + k, set())
                if len(s) < 12:
                    s.add(self.bucket(v))
        for a in names:
            if a in ('self', 'cls'):
                continue
            s = d.setdefault(a, set())
            if len(s) < 12:
                s.add(self.bucket(loc.get(a)))


def rng_for(desc, extra=''):
    return random.Random('%s/%s/%s/%s' % (desc.get('seed', 0), desc.get('check', ''),
                                         desc.get('name', ''), extra))


if __name__ == '__main__':
    sys.exit(main(sys.argv[1:]))
