"""Fresh-interpreter reference for C09: perform exactly one parse and print its canonical dump."""
import sys, json, logging, warnings


def one_parse(req):
    from vpl import work
    from vpl.util import parse, LatexWalkerParseError
    from vpl.mon import canon
    ctx = work.ctx_for(req.get('ctx'))
    try:
        nl = parse(req['s'], ctx=ctx, tolerant=req['tolerant'])
    except LatexWalkerParseError as e:
        return {'outcome': 'parse_error', 'pos': getattr(e, 'pos', None), 'msg': str(getattr(e, 'msg', ''))[:120]}
    except Exception as e:
        return {'outcome': 'exception', 'type': type(e).__name__}
    if nl is None:
        return {'outcome': 'none'}
    return {'outcome': 'ok', 'dump': [canon.canon(n) for n in nl], 'pos': nl.pos, 'pos_end': nl.pos_end}


def main():
    logging.disable(logging.CRITICAL)
    warnings.simplefilter('ignore')
    req = json.load(sys.stdin)
    json.dump(one_parse(req), sys.stdout)


if __name__ == '__main__':
    main()
