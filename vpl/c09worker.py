"""Fresh-interpreter reference for C09: perform exactly one parse and print its canonical dump."""
import sys, json, logging, warnings


_SHARED_PARSER = []


def one_parse(req):
    from vpl import work
    from vpl.util import parse, LatexWalkerParseError
    from vpl.mon import canon
    ctx = work.ctx_for(req.get('ctx'))
    parser = None
    if req.get('shared_parser'):
        # "whatever ... parser objects": one parser object serves every parse of the process
        if not _SHARED_PARSER:
            from pylatexenc.latexnodes.parsers import LatexGeneralNodesParser
            _SHARED_PARSER.append(LatexGeneralNodesParser())
        parser = _SHARED_PARSER[0]
    try:
        if req.get('reuse_walker'):
            # "whatever other inputs were parsed before ...": the walker object itself has been used before -- a complete
            # parse of the same input, position lookups, legacy token reads -- and is then asked again
            from vpl.util import walker
            from pylatexenc.latexnodes.parsers import LatexGeneralNodesParser
            lw = walker(req['s'], ctx, req['tolerant'], psopts=req.get('psopts'))
            try:
                lw.parse_content(LatexGeneralNodesParser())
            except LatexWalkerParseError:
                pass
            lw.pos_to_lineno_colno(len(req['s']))
            try:
                lw.get_token(len(req['s']) // 2)
            except Exception:
                pass
            nl, _ = lw.parse_content(parser if parser is not None else LatexGeneralNodesParser())
        else:
            nl = parse(req['s'], ctx=ctx, tolerant=req['tolerant'], parser=parser, psopts=req.get('psopts'))
    except LatexWalkerParseError as e:
        # the whole error report is part of the result: position, line/column, message, and the open blocks it lists
        import re
        oc = []
        for c in (getattr(e, 'open_contexts', None) or []):
            oc.append(re.sub(r'0x[0-9a-fA-F]+|\b\d{9,}\b', 'ID', repr(c))[:160])
        return {'outcome': 'parse_error', 'pos': getattr(e, 'pos', None), 'msg': str(getattr(e, 'msg', ''))[:120],
                'lineno': getattr(e, 'lineno', None), 'colno': getattr(e, 'colno', None), 'open_contexts': oc,
                'report': re.sub(r'0x[0-9a-fA-F]+|\b\d{9,}\b', 'ID', str(e))[:600]}
    except Exception as e:
        return {'outcome': 'exception', 'type': type(e).__name__}
    if nl is None:
        return {'outcome': 'none'}
    return {'outcome': 'ok', 'dump': [canon.canon(n) for n in nl], 'pos': nl.pos, 'pos_end': nl.pos_end}


def main():
    logging.disable(logging.CRITICAL)
    warnings.simplefilter('ignore')
    req = json.load(sys.stdin)
    json.dump(one_parse(req), sys.stdout)


if __name__ == '__main__':
    main()
