"""Fresh-interpreter reference for C09: perform exactly one parse and print its canonical dump."""
import sys, json, logging, warnings


_SHARED_PARSER = []


def one_parse(req):
    from vpl import work
    from vpl.util import parse, LatexWalkerParseError
    from vpl.mon import canon
    ctx = work.ctx_for(req.get('ctx'))
    parser = None
    if req.get('shared_parser'):
        # "whatever ... parser objects": one parser object serves every parse of the process
        if not _SHARED_PARSER:
            from pylatexenc.latexnodes.parsers import LatexGeneralNodesParser
            _SHARED_PARSER.append(LatexGeneralNodesParser())
        parser = _SHARED_PARSER[0]
    try:
        nl = parse(req['s'], ctx=ctx, tolerant=req['tolerant'], parser=parser)
    except LatexWalkerParseError as e:
        return {'outcome': 'parse_error', 'pos': getattr(e, 'pos', None), 'msg': str(getattr(e, 'msg', ''))[:120]}
    except Exception as e:
        return {'outcome': 'exception', 'type': type(e).__name__}
    if nl is None:
        return {'outcome': 'none'}
    return {'outcome': 'ok', 'dump': [canon.canon(n) for n in nl], 'pos': nl.pos, 'pos_end': nl.pos_end}


def main():
    logging.disable(logging.CRITICAL)
    warnings.simplefilter('ignore')
    req = json.load(sys.stdin)
    json.dump(one_parse(req), sys.stdout)


if __name__ == '__main__':
    main()
