"""Driver: `python -m vpl.run <Cxx> <quick|thorough> [--replay <file>]`.

Runs the check's shards in separate interpreter processes (the package under
test is imported fresh from the repository's working tree in each), merges what
the monitors observed, classifies violations against KNOWN_FINDINGS.txt, writes
evidence/<id>.json and exits

    0  property held on everything explored (KNOWN-FINDING lines possible)
    1  VIOLATION property=<id> replay=<path>
    2  inconclusive (shard died / watchdog / a deciding monitor saw too little)
"""
from __future__ import print_function
import sys, os, json, time, subprocess, importlib, threading, hashlib, traceback
from concurrent.futures import ThreadPoolExecutor

from . import findings as findings_mod
from . import evidence as evidence_mod
from .rec import Recorder, h64

ROOT = os.path.dirname(os.path.dirname(os.path.abspath(__file__)))
REPO = os.environ.get('VERIF_REPO', '/repo')
WORK = os.path.join(ROOT, '.work')
REPLAYS = os.path.join(ROOT, 'replays')


def load_check(pid):
    return importlib.import_module('vpl.checks.' + pid.lower())


def child_env():
    env = dict(os.environ)
    env['PYTHONPATH'] = os.pathsep.join([REPO, os.path.join(ROOT, '.deps'), ROOT])
    env['PYTHONHASHSEED'] = '0'
    env['PYTHONDONTWRITEBYTECODE'] = '1'
    env['PYTHONWARNINGS'] = 'ignore'
    return env


def run_one_shard(pid, desc, idx, tier, timeout):
    os.makedirs(WORK, exist_ok=True)
    tag = '%s-%s-%d-%d' % (pid, tier, os.getpid(), idx)
    fin = os.path.join(WORK, tag + '.in.json')
    fout = os.path.join(WORK, tag + '.out.json')
    with open(fin, 'w') as f:
        json.dump(desc, f)
    cmd = [sys.executable, '-B', '-m', 'vpl.shard', pid, fin, fout]
    t0 = time.time()
    try:
        p = subprocess.run(cmd, env=child_env(), cwd=ROOT, timeout=timeout,
                           stdout=subprocess.PIPE, stderr=subprocess.PIPE)
        rc = p.returncode
        err = p.stderr.decode('utf-8', 'replace')[-3000:]
    except subprocess.TimeoutExpired as e:
        rc = -999
        err = 'shard watchdog expired after %ss' % timeout
    res = None
    if os.path.exists(fout):
        try:
            res = json.load(open(fout))
        except Exception as e:
            err += '\nunreadable shard output: %r' % (e,)
    for fn in (fin, fout):
        try:
            os.remove(fn)
        except OSError:
            pass
    return {'idx': idx, 'desc': desc, 'rc': rc, 'err': err, 'res': res,
            'wall_s': time.time() - t0}


def merge(results):
    m = {'evaluations': 0, 'distinct': set(), 'hists': {}, 'samples': [], 'violations': [],
         'n_violations': 0, 'monitors': {}, 'inconclusive': [], 'notes': {}, 'shards': 0,
         'dead_shards': []}
    for r in results:
        res = r['res']
        if res is None or r['rc'] != 0:
            m['dead_shards'].append({'shard': r['desc'].get('name', r['idx']), 'rc': r['rc'],
                                     'err': r['err'][-800:]})
            if res is None:
                continue
        m['shards'] += 1
        m['evaluations'] += res['evaluations']
        m['distinct'].update(res['distinct'])
        for hn, hd in res['hists'].items():
            d = m['hists'].setdefault(hn, {})
            for k, v in hd.items():
                d[k] = d.get(k, 0) + v
        m['samples'].extend(res['samples'][:4])
        m['violations'].extend(res['violations'])
        m['n_violations'] += res['n_violations']
        for k, v in res['monitors'].items():
            m['monitors'][k] = m['monitors'].get(k, 0) + v
        m['inconclusive'].extend(res['inconclusive'])
        for k, v in res['notes'].items():
            if k not in m['notes'] or v > m['notes'][k]:
                m['notes'][k] = v
    return m


def write_replay(pid, viol):
    os.makedirs(REPLAYS, exist_ok=True)
    body = json.dumps({'property': pid, 'case': viol['case'], 'msg': viol['msg'],
                       'mech': viol.get('mech')}, indent=1, sort_keys=True, default=repr)
    name = '%s-%s.json' % (pid, hashlib.sha1(body.encode()).hexdigest()[:12])
    path = os.path.join(REPLAYS, name)
    with open(path, 'w') as f:
        f.write(body)
    return path


def do_replay(pid, path):
    import logging, warnings
    logging.disable(logging.CRITICAL)
    warnings.simplefilter('ignore')
    chk = load_check(pid)
    data = json.load(open(path))
    rec = Recorder('replay')
    chk.setup(rec)
    chk.check_case(data['case'], rec)
    findings, _ = findings_mod.load()
    bad = 0
    for v in rec.violations:
        key = classify(chk, v)
        if key and (pid, key) in findings:
            print('KNOWN-FINDING: property=%s %s :: %s' % (pid, key, v['msg'][:300]))
        else:
            bad += 1
            print('VIOLATION property=%s replay=%s' % (pid, path))
            print('  ' + v['msg'][:1500])
    if not rec.violations:
        print('replay: no violation reproduced (%d evaluations)' % rec.evaluations)
    return 1 if bad else 0


def classify(chk, v):
    fn = getattr(chk, 'classify', None)
    if fn is None:
        return v.get('mech') if v.get('mech', '') and str(v.get('mech')).startswith('K:') else None
    try:
        return fn(v['case'], v['msg'], v.get('mech'))
    except Exception:
        traceback.print_exc()
        return None


def main(argv):
    try:
        import signal
        signal.signal(signal.SIGPIPE, signal.SIG_DFL)      # `./check ... | head` must not traceback
    except Exception:
        pass
    if len(argv) < 2:
        print(__doc__)
        return 2
    pid = argv[0].upper()
    tier = argv[1]
    if '--replay' in argv:
        return do_replay(pid, argv[argv.index('--replay') + 1])
    assert tier in ('quick', 'thorough'), tier
    seed = int(os.environ.get('VERIF_SEED', '0') or 0)
    t0 = time.time()
    chk = load_check(pid)
    shards = chk.plan(tier, seed)
    for i, d in enumerate(shards):
        d.setdefault('name', 'shard%d' % i)
        d['tier'] = tier
        d['seed'] = seed
    timeout = getattr(chk, 'SHARD_TIMEOUT', {}).get(tier, 900 if tier == 'quick' else 3600)
    ncpu = int(os.environ.get('VERIF_JOBS', '0') or 0) or min(16, os.cpu_count() or 4)
    with ThreadPoolExecutor(max_workers=ncpu) as ex:
        futs = [ex.submit(run_one_shard, pid, d, i, tier, timeout) for i, d in enumerate(shards)]
        results = [f.result() for f in futs]
    m = merge(results)

    findings, fixed = findings_mod.load()
    known_hit = {}
    unknown = []
    for v in m['violations']:
        key = classify(chk, v)
        if key and (pid, key) in findings:
            known_hit.setdefault(key, []).append(v)
        else:
            unknown.append(v)
    # witnesses beyond the per-mechanism cap were counted but not kept; every mechanism keeps
    # its first witnesses, so an unknown mechanism is never hidden behind a known one
    uncounted = m['n_violations'] - len(m['violations'])

    # inconclusive?
    reasons = []
    if m['dead_shards']:
        reasons.append('shards died or timed out: %r' % m['dead_shards'][:3])
    floors = chk.floors(tier)
    for k, need in floors.items():
        if k == 'evaluations':
            have = m['evaluations']
        elif k == 'distinct_nontrivial':
            have = len(m['distinct'])
        elif k.startswith('hist:'):
            _, hn, hk = k.split(':', 2)
            have = m['hists'].get(hn, {}).get(hk, 0)
        elif k.startswith('histkeys:'):
            have = len(m['hists'].get(k.split(':', 1)[1], {}))
        else:
            have = m['monitors'].get(k, 0)
        if have < need:
            reasons.append('monitor/counter %s saw %d < floor %d' % (k, have, need))
    if m['inconclusive']:
        n_inc = m['monitors'].get('inconclusive_cases', len(m['inconclusive']))
        if n_inc > getattr(chk, 'MAX_INCONCLUSIVE_CASES', 0):
            reasons.append('%d cases inconclusive (watchdog): %r' % (n_inc, m['inconclusive'][:3]))

    wall = time.time() - t0
    status = 'held'
    replay_paths = []
    if unknown:
        status = 'violated'
        # shrink a few, then write replays
        shrinker = getattr(chk, 'shrink', None)
        seen_msgs = set()
        for v in unknown:
            sig = (v.get('mech'), v['msg'][:60])
            if sig in seen_msgs and len(replay_paths) >= 3:
                continue
            seen_msgs.add(sig)
            if shrinker is not None and len(replay_paths) < 5:
                try:
                    v = shrinker(v) or v
                except Exception:
                    traceback.print_exc()
            replay_paths.append((write_replay(pid, v), v))
            if len(replay_paths) >= 10:
                break
    elif reasons:
        status = 'inconclusive'

    ev = evidence_mod.build(pid, chk, tier, seed, m, wall, status, known_hit, reasons,
                            len(unknown) + (uncounted if unknown else 0))
    evidence_mod.write(pid, ev)

    print('%s %s seed=%d: %s; %d evaluations, %d distinct non-trivial, %d shards, %.1fs'
          % (pid, tier, seed, status.upper(), m['evaluations'], len(m['distinct']),
             m['shards'], wall))
    mons = ', '.join('%s=%d' % kv for kv in sorted(m['monitors'].items()))
    if mons:
        print('  monitors: ' + mons[:1500])
    for key, vs in sorted(known_hit.items()):
        print('KNOWN-FINDING: property=%s %s (%d cases, e.g. %s)'
              % (pid, key, len(vs), json.dumps(vs[0]['case'], default=repr)[:200]))
    if status == 'violated':
        for path, v in replay_paths:
            print('VIOLATION property=%s replay=%s' % (pid, path))
            print('    ' + v['msg'][:600].replace('\n', '\n    '))
        print('  (%d violating cases in total)' % (len(unknown) + uncounted))
        return 1
    if status == 'inconclusive':
        for r in reasons:
            print('INCONCLUSIVE: ' + r[:1000])
        return 2
    return 0


if __name__ == '__main__':
    sys.exit(main(sys.argv[1:]))
