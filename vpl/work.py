"""Shared workloads: bounded-exhaustive strings, soups over all database names, generated documents."""
import random
from .gen import soup, doc as D, ctx as X


def enum_strings(L, k, n, alphabet=None, min_len=0):
    return soup.slice_of(soup.all_strings(alphabet or soup.ALPHABET, L, min_len), k, n)


def soups(rng, count, max_atoms=8):
    atoms = soup.soup_atoms(True)
    for _ in range(count):
        yield soup.soup(rng, atoms, max_atoms=max_atoms)


def custom_soups(rng, vocab, count, max_atoms=8):
    """Token soups over the names of a generated custom context."""
    atoms = ['\\' + n for n in vocab.macros] + ['\\begin{%s}' % e for e in vocab.envs] \
        + ['\\end{%s}' % e for e in vocab.envs] + list(vocab.specials) + ['*', '+', '(', ')', '<', '>', '|', '[', ']'] \
        + ['\\begin{%s}' % e for e in vocab.verb_envs] + ['\\end{%s}' % e for e in vocab.verb_envs] + ['^', '_', '\n']
    for _ in range(count):
        yield soup.soup(rng, atoms, max_atoms=max_atoms, p_basic=0.5)


class DocSource(object):
    """Generated documents; yields (source, ast, vocab, db, case-describing dict)."""

    def __init__(self, rng, kind, depth=4, profile=None, per_vocab=40, cover_base=0):
        self.rng = rng
        self.kind = kind
        self.depth = depth
        self.profile = profile
        self.per_vocab = per_vocab
        self.cover_base = cover_base
        self.i = 0
        self.vseed = None
        self.vocab = None
        self.db = None

    def next(self):
        if self.kind == 'default':
            if self.vocab is None:
                self.vocab = D.default_vocab()
                self.db = None
            desc = {'vocab': 'default'}
        else:
            if self.i % self.per_vocab == 0:
                self.vseed = [self.rng.randrange(1 << 30), self.cover_base + self.i // self.per_vocab]
                self.vocab, self.db = vocab_from_seed(self.vseed)
            desc = {'vocab': 'custom', 'vseed': self.vseed}
        self.i += 1
        ast, src, bounds, redraws = D.gen_doc(self.rng, self.vocab, max_depth=self.depth, profile=self.profile)
        return src, ast, bounds, self.vocab, self.db, desc


_VC = {}


def vocab_from_seed(vseed):
    key = tuple(vseed)
    if key not in _VC:
        if len(_VC) > 60:
            _VC.clear()
        v = X.custom_vocab(random.Random(vseed[0]), full_cover_index=vseed[1])
        _VC[key] = (v, v.make_ctx())
    return _VC[key]


_DEFS = []


def defs_context():
    """Default walker database plus, in an automatically named category placed first, a minimal
    \\newcommand-like macro: \\defmacro{name} defines \\name (one mandatory argument) for the rest of the
    current scope through ParsingStateDeltaExtendLatexContextDb -- the documented way for a document to
    extend the context while it is parsed."""
    if not _DEFS:
        from pylatexenc.latexwalker import get_default_latex_context_db
        from pylatexenc.macrospec import MacroSpec, EnvironmentSpec, ParsingStateDeltaExtendLatexContextDb

        def after_delta(parsed_node, latex_walker, **kwargs):
            name = parsed_node.nodeargd.argnlist[0].latex_verbatim().strip('{} ')
            return ParsingStateDeltaExtendLatexContextDb(
                extend_latex_context=dict(macros=[MacroSpec(name, '{')],
                                          environments=[EnvironmentSpec(name + 'env', '[')]))
        db = get_default_latex_context_db()
        db.add_context_category(None, macros=[MacroSpec('defmacro', '{', make_after_parsing_state_delta=after_delta)],
                                prepend=True)
        _DEFS.append(db)
    return _DEFS[0]


_NLARGS = []
NLARGS_ATOMS = ['\\flag', '\\flag*', '\\ttl{H}', '\\ttl{H}\\label{a}', '\\ttl', '\\full{a}', '\\full', '\\full x', '\\emb',
                '\\emb^a', '\\emb_b^c', ' x', 'y', ' ', '{', '}', '$', '\\begin{envf}', '\\begin{envf}+', '\\end{envf}',
                '\\alpha', '\n\n', '%c\n', '\\label{z}', '\\unk',
                '\\chg{a\\b$%c\n}', '\\chg{a{b}c}', '\\chg', '\\chg x', '\\csl{a,b}', '\\csl{a, {b,c} ,,d}', '\\csl{}',
                '\\csl{a%c\n,b}', '\\csl', '\\anyd(a)', '\\anyd<a{)}>', '\\anyd[x]', '\\anyd', ',',
                # embellishment arguments of every form, with and without blanks after the marker
                '\\emb^ \\alpha', '\\emb_ ~', '\\emb^ x', '\\emb^ {x}', '\\emb_%c\n y', '\\emb^\\alpha_ \\alpha',
                # a macro declared through a pylatexenc-2 arguments parser object
                '\\lgc', '\\lgc*', '\\lgc[a]{b}', '\\lgc*{b}', '\\lgc *', '\\lgd{a}', '\\lgd{a}*', '\\lgd',
                # ... with blanks / a line end in front of a later argument (the star, the group)
                '\\lgd{a} *', '\\lgd{a}\n*x', '\\lgd {a}  * ', '\\lgc* {b}', '\\lgc*\n{b}',
                # blanks / a line end before the closing delimiter of a list or group argument
                '\\csl{a, b }', '\\csl{a,\n b\n}', '\\csl{ }', '\\csl{a , }', '\\chg{a }', '\\anyd( a )',
                # the specials construct with arguments
                '@@{a}', '@@[o]{b \\alpha}', '@@', '@@ {c}', '~']


def nlargs_strings(rng, count):
    for _ in range(count):
        yield ''.join(rng.choice(NLARGS_ATOMS) for _ in range(rng.randint(1, 7)))



def nlargs_context():
    """A context whose macros take node-list valued arguments (optional marker with full node list, tack-on
    field macros, full-node-list expression, embellishments): such arguments are LatexNodeList objects,
    possibly empty, inside ParsedArguments.argnlist."""
    if not _NLARGS:
        from pylatexenc.macrospec import LatexContextDb, MacroSpec, EnvironmentSpec, MacroStandardArgsParser, SpecialsSpec
        from pylatexenc.latexnodes import LatexArgumentSpec
        from pylatexenc.latexnodes import parsers as P
        db = LatexContextDb()
        db.add_context_category('c', macros=[
            MacroSpec('emb', [LatexArgumentSpec('e{^_}')]),
            MacroSpec('flag', [LatexArgumentSpec(P.LatexOptionalCharsMarkerParser(
                ['*'], return_full_node_list=True, return_none_instead_of_empty=False))]),
            MacroSpec('ttl', [LatexArgumentSpec('{'),
                              LatexArgumentSpec(P.LatexTackOnInformationFieldMacrosParser(['label']))]),
            MacroSpec('full', [LatexArgumentSpec(P.LatexStandardArgumentParser('{', return_full_node_list=True))]),
            MacroSpec('label', '{'), MacroSpec('alpha', ''),
            MacroSpec('chg', [LatexArgumentSpec(P.LatexCharsGroupParser())]),
            MacroSpec('csl', [LatexArgumentSpec(P.LatexCharsCommaSeparatedListParser())]),
            MacroSpec('anyd', [LatexArgumentSpec('AnyDelimitedOptional')]),
            MacroSpec('lgc', args_parser=MacroStandardArgsParser('*[{')),
            MacroSpec('lgd', args_parser=MacroStandardArgsParser('{*')),
        ], environments=[EnvironmentSpec('envf', [LatexArgumentSpec(P.LatexOptionalCharsMarkerParser(
            ['+'], return_full_node_list=True, return_none_instead_of_empty=False))])],
            # a specials construct that takes arguments, and plain ones
            specials=[SpecialsSpec('@@', ['[', '{']), SpecialsSpec('~'), SpecialsSpec('\n\n')])
        db.set_unknown_macro_spec(MacroSpec(''))
        db.set_unknown_environment_spec(EnvironmentSpec(''))
        _NLARGS.append(db)
    return _NLARGS[0]


def ctx_for(desc):
    """Context database for a case description ({'vocab': 'default'}, 'defs', or custom with vseed)."""
    if not desc or desc.get('vocab', 'default') == 'default':
        return None
    if desc.get('vocab') == 'defs':
        return defs_context()
    if desc.get('vocab') == 'nlargs':
        return nlargs_context()
    return vocab_from_seed(desc['vseed'])[1]


# parsing states a walker may be started from (LatexWalker(default_parsing_state=...)): every switch of ParsingState
PS_CONFIGS = [
    {'in_math_mode': True, 'math_mode_delimiter': '$'}, {'in_math_mode': True}, {'in_math_mode': True, 'math_mode_delimiter': '\\['},
    {'enable_double_newline_paragraphs': False}, {'enable_comments': False}, {'enable_macros': False},
    {'enable_environments': False}, {'enable_groups': False}, {'enable_math': False}, {'enable_specials': False},
    {'latex_group_delimiters': [['{', '}'], ['[', ']']]}, {'latex_group_delimiters': [['(', ')']]},
    {'latex_inline_math_delimiters': [['$', '$'], ['|', '|']], 'latex_display_math_delimiters': [['<', '>']]},
    {'forbidden_characters': 'a$'}, {'macro_escape_char': '!', 'comment_start': '@'}, {'macro_alpha_chars': 'ab@'},
    {'comment_start': '%%'},
]
