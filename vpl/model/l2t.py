"""Reference renderer for the core sublanguage of latex2text, written from the documented rules.

Input: an abstract document of vpl/gen/doc.py (explicit whitespace items), never a parsed tree.

  * text is copied; groups and font/formatting macros are transparent (a free-standing group keeps its
    braces iff keep_braced_groups and its content has at least keep_braced_groups_minlen characters);
  * symbol macros, accents and specials become their Unicode characters (hand-written tables below);
    \\frac{a}{b} -> a/b; comments vanish; a paragraph break is two newlines;
  * inline math is inlined and stripped, display math becomes an indented block on its own lines;
  * \\item starts a bullet line; list and unknown environments render their body;
  * whitespace (strict_latex_spaces policy):
      1. whitespace after a bare control word belongs to the macro; it is emitted only if plain text
         follows and 'between-macro-and-chars' is off;
      2. whitespace adjacent to plain text is part of that text;
      3. other whitespace (between two non-text constructs, or at a block edge next to one) is a unit of
         its own, emitted only under 'between-latex-constructs';
      4. a comment owns its newline and the following blanks; emitted only when 'after-comment' is off;
      5. inside any formula the 'in-equations' preset (if any) replaces the policy.
"""
import unicodedata

SYMBOLS = {
    'alpha': 'α', 'beta': 'β', 'gamma': 'γ', 'delta': 'δ', 'lambda': 'λ', 'mu': 'μ', 'pi': 'π', 'sigma': 'σ',
    'omega': 'ω', 'Gamma': 'Γ', 'Delta': 'Δ', 'Omega': 'Ω', 'theta': 'θ', 'phi': 'ϕ', 'psi': 'ψ', 'rho': 'ρ',
    'tau': 'τ', 'chi': 'χ', 'eta': 'η', 'zeta': 'ζ', 'kappa': 'κ', 'nu': 'ν', 'xi': 'ξ',
    'ldots': '…', 'dots': '…', 'ss': 'ß', 'o': 'ø', 'O': 'Ø', 'ae': 'æ', 'AE': 'Æ', 'l': 'ł', 'L': 'Ł',
    'infty': '∞', 'to': '→', 'times': '×', 'leq': '≤', 'geq': '≥', 'pm': '±', 'neq': '≠', 'in': '∈',
    'sum': '∑', 'int': '∫', 'partial': '∂', 'nabla': '∇', 'forall': '∀', 'exists': '∃',
    'dag': '†', 'i': 'ı', 'j': 'ȷ',
    'rightarrow': '→', 'leftarrow': '←', 'Rightarrow': '⇒', 'cup': '∪', 'cap': '∩', 'subset': '⊂',
    'approx': '≈', 'equiv': '≡', 'sim': '∼', 'otimes': '⊗', 'oplus': '⊕', 'ell': 'ℓ',
}
CONTROL_SYMBOLS = {'&': '&', '%': '%', '$': '$', '#': '#', '_': '_', '{': '{', '}': '}'}
ACCENTS = {"'": '́', '`': '̀', '^': '̂', '"': '̈', '~': '̃', 'c': '̧', 'v': '̌',
           '=': '̄', '.': '̇', 'u': '̆', 'H': '̋'}
SPECIALS = {'~': '\xa0', '--': '–', '---': '—', '``': '“', "''": '”', '&': '   '}
FORMAT_MACROS = {'textbf', 'emph', 'textit', 'texttt', 'textrm', 'textsc', 'textsl', 'textsf', 'textmd', 'textup', 'text',
                 'mbox', 'mathrm'}

PRESETS = {
    'based-on-source': {'mc': False, 'lc': False, 'ac': False, 'eq': None},
    'macros': {'mc': True, 'lc': True, 'ac': False, 'eq': 'based-on-source'},
    'except-in-equations': {'mc': True, 'lc': True, 'ac': True, 'eq': 'based-on-source'},
    'strict': {'mc': True, 'lc': True, 'ac': True, 'eq': 'strict'},
}


def policy_of(strict_latex_spaces):
    v = strict_latex_spaces
    if isinstance(v, dict):
        # the documented dictionary form: missing keys are off, 'in-equations' is itself any accepted value (or None)
        return {'mc': bool(v.get('between-macro-and-chars', False)), 'lc': bool(v.get('between-latex-constructs', False)),
                'ac': bool(v.get('after-comment', False)), 'eq': v.get('in-equations', None)}
    if v is True or v == 'on':
        return PRESETS['strict']
    if v is False or v is None or v == 'off' or v == 'macros':
        return PRESETS['macros']
    if v == 'default':
        return PRESETS['based-on-source']
    return PRESETS[v]


class Unsupported(Exception):
    """The document uses something outside the modelled sublanguage."""


class Renderer(object):
    def __init__(self, vocab, strict_latex_spaces=False, math_mode='text', keep_braced_groups=False,
                 keep_braced_groups_minlen=2):
        self.vocab = vocab
        self.P0 = policy_of(strict_latex_spaces)
        self.math_mode = math_mode
        self.kbg = keep_braced_groups
        self.kbg_min = keep_braced_groups_minlen

    def eq_policy(self, P):
        if P['eq'] is None:
            return P
        return policy_of(P['eq'])

    def render(self, doc):
        return self.block(doc, self.P0)

    # -- kinds
    def is_bare(self, it):
        if it[0] != 'M':
            return False
        name, args = it[1], it[2]
        return all(a is None for a in args)

    def bare_owns_space(self, it):
        """Only control words (letters) have a post-space; control symbols own nothing."""
        return self.is_bare(it) and it[1][-1:].isalpha()

    def swallows_space(self, it):
        """A macro whose last written argument is a single control-word token: the blanks after it are the
        post-space of that inner control word and are never rendered."""
        if it is None or it[0] != 'M':
            return False
        present = [a for a in it[2] if a is not None]
        return bool(present) and present[-1][1] == 'tokm' and present[-1][2][-1:].isalpha()

    def block(self, items, P):
        out = []
        n = len(items)
        i = 0
        while i < n:
            it = items[i]
            k = it[0]
            prev = items[i - 1] if i > 0 else None
            nxt = items[i + 1] if i + 1 < n else None
            if k == 'W':
                w = it[1]
                if prev is not None and prev[0] == 'M' and self.bare_owns_space(prev):
                    if nxt is not None and nxt[0] == 'T' and not P['mc']:
                        out.append(w)
                elif self.swallows_space(prev):
                    pass
                elif prev is not None and prev[0] == 'C':
                    raise Unsupported('whitespace item after comment')
                elif (nxt is not None and nxt[0] == 'T') or (prev is not None and prev[0] == 'T'):
                    out.append(w)
                elif P['lc']:
                    out.append(w)
            elif k == 'T':
                out.append(it[1])
            elif k == 'P':
                ws = it[1]
                # the paragraph token spans first..last newline; blanks before it belong to the preceding
                # text, blanks after it to what follows
                first, last = ws.find('\n'), ws.rfind('\n')
                head, tail = ws[:first], ws[last + 1:]
                if head:
                    if prev is not None and prev[0] == 'M' and (self.bare_owns_space(prev) or self.swallows_space(prev)):
                        pass
                    elif prev is not None and prev[0] == 'T':
                        out.append(head)
                    elif P['lc']:
                        out.append(head)
                out.append('\n\n')
                if tail:
                    if nxt is not None and nxt[0] == 'T':
                        out.append(tail)
                    elif P['lc']:
                        out.append(tail)
            elif k == 'C':
                post = it[2] or ''
                if not P['ac']:
                    out.append(post)
            elif k == 'G':
                c = self.block(it[1], P)
                if self.kbg and len(c) >= self.kbg_min:
                    out.append('{' + c + '}')
                else:
                    out.append(c)
            elif k == 'S':
                if it[1] not in SPECIALS:
                    raise Unsupported('specials %r' % it[1])
                out.append(SPECIALS[it[1]])
            elif k == 'MATH':
                out.append(self.formula(it, P))
            elif k == 'E':
                out.append(self.environment(it, P))
            elif k == 'M':
                out.append(self.macro(it, P))
            else:
                raise Unsupported('item %r' % (k,))
            i += 1
        return ''.join(out)

    def arg_text(self, a, P):
        """Text of a written argument (group contents or single token)."""
        if a is None:
            return ''
        what = a[1]
        if what == 'grp':
            return self.block(a[4], P)
        if what == 'tok':
            return a[2]
        if what == 'tokm':
            return self.macro(('M', a[2], []), P)
        if what == 'star':
            return ''
        raise Unsupported('argument form %r' % what)

    def macro(self, it, P):
        name, args = it[1], it[2]
        if name in CONTROL_SYMBOLS:
            return CONTROL_SYMBOLS[name]
        if name in ACCENTS and len(args) == 1:
            base = self.arg_text(args[0], P)
            if len(base) != 1:
                raise Unsupported('accent over %r' % base)
            base = {'ı': 'i', 'ȷ': 'j'}.get(base, base)
            return unicodedata.normalize('NFC', base + ACCENTS[name])
        if name in SYMBOLS and not args:
            return SYMBOLS[name]
        if name in FORMAT_MACROS:
            return ''.join(self.arg_text(a, P) for a in args)
        if name == 'frac':
            return self.arg_text(args[0], P) + '/' + self.arg_text(args[1], P)
        if name == 'sqrt':
            return '√(' + self.arg_text(args[-1], P) + ')'
        if name == 'item':
            if args and args[0] is not None:
                return '\n  ' + self.arg_text(args[0], P)
            return '\n  * '
        if name == 'par':
            return '\n\n'
        raise Unsupported('macro %r' % name)

    def formula(self, it, P):
        o, c, body = it[1], it[2], it[3]
        display = o in ('$$', '\\[')
        if self.math_mode == 'remove':
            return ''
        PE = self.eq_policy(P)
        content = self.block(body, PE).strip()
        if self.math_mode == 'with-delimiters':
            if display:
                return o + '\n' + content + '\n' + c
            return o + content + c
        if self.math_mode == 'verbatim':
            raise Unsupported('verbatim formulas are rendered from the source')
        if display:
            return '\n    ' + content.replace('\n', '\n    ') + '\n'
        return content

    def environment(self, it, P):
        name, args, body = it[1], it[2], it[3]
        d = self.vocab.envs.get(name)
        if d is not None and d.get('math'):
            if self.math_mode == 'remove':
                return ''
            PE = self.eq_policy(P)
            content = self.block(body, PE).strip()
            if self.math_mode == 'with-delimiters':
                return '\\begin{%s}' % name + '\n' + content + '\n' + '\\end{%s}' % name
            if self.math_mode == 'verbatim':
                raise Unsupported('verbatim formulas are rendered from the source')
            return '\n    ' + content.replace('\n', '\n    ') + '\n'
        return self.block(body, P)
