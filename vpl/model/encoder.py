"""Reference model of UnicodeToLatexEncoder written from its class docstring.

NFC-normalise; at each position, left to right: with non_ascii_only an ASCII character is copied;
otherwise the first rule in the given order (dictionary / regular expression / callable) that
matches supplies the replacement and the number of characters consumed; the replacement is
protected with the rule's own scheme if it has one, else the encoder's; an unmatched printable
ASCII character (or newline, carriage return, tab) is copied; any other unmatched character follows
unknown_char_policy.  Returns the list of chunks appended to the result.
"""
import unicodedata


class Fail(Exception):
    pass


def ends_with_control_word(repl):
    """'the replacement string ends with a latex macro invocation with a non-symbol macro name'"""
    k = repl.rfind('\\')
    return k >= 0 and repl[k + 1:].isalpha()


def protect(scheme, repl):
    if callable(scheme):
        return scheme(repl)
    if scheme == 'none':
        return repl
    if scheme == 'braces':
        return '{' + repl + '}' if ends_with_control_word(repl) else repl
    if scheme == 'braces-all':
        return '{' + repl + '}'
    if scheme == 'braces-almost-all':
        return '{' + repl + '}' if repl[:1] == '\\' else repl
    if scheme == 'braces-after-macro':
        return repl + '{}' if ends_with_control_word(repl) else repl
    raise ValueError(scheme)


def passes_through(ch):
    o = ord(ch)
    return 32 <= o <= 126 or ch in '\n\r\t'


def encode_chunks(s, rules, scheme, unknown, non_ascii_only, unknown_repl=None):
    """rules: list of (kind, data, rule_scheme) with kind in 'dict' | 'regex' | 'callable'.
    unknown: 'keep' | 'ignore' | 'fail' | 'replace' | 'unihex' | callable(ch)."""
    s = unicodedata.normalize('NFC', s)
    out = []
    pos = 0
    n = len(s)
    while pos < n:
        ch = s[pos]
        if non_ascii_only and ord(ch) < 127:
            out.append(ch)
            pos += 1
            continue
        hit = None
        for kind, data, rsch in rules:
            if kind == 'dict':
                if ord(ch) in data:
                    hit = (data[ord(ch)], 1, rsch)
            elif kind == 'regex':
                for rx, repl in data:
                    m = rx.match(s, pos)
                    if m is not None:
                        hit = (repl(m) if callable(repl) else m.expand(repl), m.end() - m.start(), rsch)
                        break
            else:
                r = data(s, pos)
                if r is not None:
                    hit = (r[1], r[0], rsch)
            if hit:
                break
        if hit:
            repl, k, rsch = hit
            out.append(protect(rsch if rsch is not None else scheme, repl))
            pos += k
            continue
        if passes_through(ch):
            out.append(ch)
        elif unknown == 'keep':
            out.append(ch)
        elif unknown == 'ignore':
            out.append('')
        elif unknown == 'fail':
            raise Fail(ch)
        elif unknown == 'replace':
            out.append(('REPLACE', ch))
        elif unknown == 'unihex':
            out.append(('UNIHEX', ch))
        else:
            out.append(unknown(ch))
        pos += 1
    return out


def chunks_match(want, got):
    """Compare model chunks with observed chunks; 'replace'/'unihex' texts are checked by shape:
    replace -> one fixed ASCII string containing '?'; unihex -> ASCII containing U+<hex code>."""
    if len(want) != len(got):
        return 'number of chunks %d != %d' % (len(got), len(want))
    for i, (w, g) in enumerate(zip(want, got)):
        if isinstance(w, tuple):
            if not isinstance(g, str) or not g.isascii():
                return 'chunk %d: %r is not an ASCII string' % (i, g)
            if w[0] == 'REPLACE':
                if '?' not in g:
                    return "chunk %d: 'replace' text %r has no question mark" % (i, g)
            else:
                code = '%04X' % ord(w[1])
                if ('U+' + code) not in g.upper().replace('U+', 'U+'):
                    return "chunk %d: 'unihex' text %r does not show U+%s" % (i, g, code)
        elif w != g:
            return 'chunk %d: %r, expected %r' % (i, g, w)
    return None
