"""Logical step budget (token-reader events) and wall-clock watchdog.

Termination properties are decided on *logical steps*: every call of the real
LatexTokenReader's read primitives counts one step, and one top-level operation
may use at most A*(len(input)+1)+B of them.  The wall-clock watchdog only ever
produces an *inconclusive* case.
"""
import signal
from pylatexenc.latexnodes import _tokenreader


class StepBudgetExceeded(BaseException):
    pass


class WatchdogExpired(BaseException):
    pass


class _State(object):
    steps = 0
    limit = None
    installed = False
    last_positions = None


S = _State()

_COUNTED = ('peek_token', 'peek_chars', 'next_chars', 'skip_space_chars', 'peek_space_chars',
            'move_to_token', 'move_past_token', 'move_to_pos_chars')


def install():
    if S.installed:
        return
    cls = _tokenreader.LatexTokenReader
    for name in _COUNTED:
        orig = getattr(cls, name)

        def make(orig, name):
            def counted(self, *a, **kw):
                S.steps += 1
                if S.limit is not None and S.steps > S.limit:
                    lim = S.limit
                    S.limit = None
                    raise StepBudgetExceeded(
                        'more than %d token-reader steps (at %s, reader position %r)'
                        % (lim, name, getattr(self, '_pos', None)))
                return orig(self, *a, **kw)
            counted.__name__ = name
            counted.__doc__ = orig.__doc__
            counted.__wrapped__ = orig
            return counted
        setattr(cls, name, make(orig, name))
    S.installed = True


def begin(limit):
    S.steps = 0
    S.limit = limit


def end():
    n = S.steps
    S.limit = None
    return n


def limit_for(s, A=400, B=4000):
    return A * (len(s) + 1) + B


class watchdog(object):
    """with watchdog(seconds): ...   raises WatchdogExpired inside the block."""
    def __init__(self, seconds):
        self.seconds = seconds

    def _fire(self, signum, frame):
        raise WatchdogExpired('wall-clock watchdog (%ss)' % self.seconds)

    def __enter__(self):
        self.old = signal.signal(signal.SIGALRM, self._fire)
        signal.setitimer(signal.ITIMER_REAL, self.seconds)
        return self

    def __exit__(self, *exc):
        signal.setitimer(signal.ITIMER_REAL, 0)
        signal.signal(signal.SIGALRM, self.old)
        return False
