"""Online contracts on the real pylatexenc classes.

Applied with icontract (installed offline by setup.sh into .deps); when the
wheel is unusable a plain wrapper with the same conditions is used and the
evidence says so.  Conditions *record* a violation and return True so that the
observed execution is not disturbed (the main oracle of the running check still
sees what the code does); the harness drains the records after every case.

Every contract counts its evaluations; a check that relies on one and sees zero
evaluations exits inconclusive.
"""
import functools

try:
    import icontract
    BACKEND = 'icontract ' + getattr(icontract, '__version__', '?')
except Exception:           # pragma: no cover
    icontract = None
    BACKEND = 'builtin-wrapper'

COUNTS = {}
RECORDS = []
INSTALLED = set()
MAX_RECORDS = 200


class ContractBroken(Exception):
    pass


def _count(name):
    COUNTS[name] = COUNTS.get(name, 0) + 1


def _record(name, msg):
    if len(RECORDS) < MAX_RECORDS:
        RECORDS.append((name, msg))


def drain():
    out = list(RECORDS)
    del RECORDS[:]
    return out


def _apply(cls, methname, snap_fn, post_fn, cname):
    """Decorate cls.methname: OLD.v = snap_fn(self, *a), then post_fn(self, result, OLD.v, args)."""
    orig = getattr(cls, methname)
    if icontract is not None:
        def snapshot_value(self):
            return snap_fn(self)
        snapshot_value.__name__ = 'snapshot_' + cname

        def condition(self, result, OLD):
            _count(cname)
            try:
                msg = post_fn(self, result, OLD.v)
            except Exception as e:      # a crashing condition is a monitor bug, make it loud
                msg = 'contract condition crashed: %r' % (e,)
            if msg:
                _record(cname, msg)
            return True
        condition.__name__ = 'post_' + cname
        decorated = icontract.snapshot(snapshot_value, name='v')(
            icontract.ensure(condition, error=ContractBroken)(orig))
    else:
        @functools.wraps(orig)
        def decorated(self, *a, **kw):
            old = snap_fn(self)
            result = orig(self, *a, **kw)
            _count(cname)
            msg = post_fn(self, result, old)
            if msg:
                _record(cname, msg)
            return result
    setattr(cls, methname, decorated)


# ---------------------------------------------------------------- token reader (C11)

def install_reader_contracts():
    if 'reader' in INSTALLED:
        return
    INSTALLED.add('reader')
    from pylatexenc.latexnodes import LatexTokenReader

    def snap_pos(self):
        return self.cur_pos()

    def peek_post(self, result, old):
        if self.cur_pos() != old:
            return 'peek_token() moved the reader from %r to %r (token %r)' % (old, self.cur_pos(), result)

    def next_post(self, result, old):
        now = self.cur_pos()
        if now <= old:
            return 'next_token() did not advance: position %r -> %r (token %r)' % (old, now, result)
        if now != result.pos_end:
            return 'next_token() left the reader at %r but the token ends at %r (%r)' % (now, result.pos_end, result)

    _apply(LatexTokenReader, 'peek_token', snap_pos, peek_post, 'peek_token_does_not_move')
    _apply(LatexTokenReader, 'next_token', snap_pos, next_post, 'next_token_advances')


# ---------------------------------------------------------------- nodes (C01)

def install_node_contracts():
    if 'nodes' in INSTALLED:
        return
    INSTALLED.add('nodes')
    from pylatexenc.latexwalker import LatexWalker

    def snap_none(self):
        return None

    def make_node_post(self, result, old):
        n = result
        pos, pos_end = getattr(n, 'pos', None), getattr(n, 'pos_end', None)
        L = len(self.s)
        if pos is not None and not (0 <= pos <= L):
            return 'make_node: %s.pos=%r outside the input (len %d)' % (type(n).__name__, pos, L)
        if pos_end is not None and not (0 <= pos_end <= L):
            return 'make_node: %s.pos_end=%r outside the input (len %d)' % (type(n).__name__, pos_end, L)
        if pos is not None and pos_end is not None and pos > pos_end:
            return 'make_node: %s has pos %r > pos_end %r' % (type(n).__name__, pos, pos_end)

    _apply(LatexWalker, 'make_node', snap_none, make_node_post, 'make_node_span_in_input')


# ---------------------------------------------------------------- parsing state (C17)

def install_parsing_state_contracts():
    if 'ps' in INSTALLED:
        return
    INSTALLED.add('ps')
    from pylatexenc.latexnodes import ParsingState

    def snap_fields(self):
        import copy
        return {k: (copy.deepcopy(v) if isinstance(v, (list, dict, set)) else v) for k, v in self.get_fields().items()}

    def sub_context_post(self, result, old):
        now = self.get_fields()
        for k in old:
            if not _same(now[k], old[k]):
                return 'sub_context() altered field %r of its receiver: %r -> %r' % (k, old[k], now[k])

    _apply(ParsingState, 'sub_context', snap_fields, sub_context_post, 'sub_context_receiver_unchanged')


def _same(a, b):
    if a is b:
        return True
    try:
        return a == b
    except Exception:
        return False
