"""Canonical, identity-free dump of pylatexenc node trees.

The dump only uses the public attributes of the node classes, so it is stable
under refactoring of internals, and contains no object identities, so dumps made
in different processes compare equal.
"""
from pylatexenc.latexnodes import nodes as N

KIND = {
    'LatexCharsNode': 'chars', 'LatexGroupNode': 'group', 'LatexCommentNode': 'comment',
    'LatexMacroNode': 'macro', 'LatexEnvironmentNode': 'env', 'LatexSpecialsNode': 'specials',
    'LatexMathNode': 'math',
}

def kind(n):
    if n is None:
        return 'none'
    if isinstance(n, (list, tuple, N.LatexNodeList)):
        return 'list'
    return KIND.get(type(n).__name__, type(n).__name__)


def _ps(n):
    ps = getattr(n, 'parsing_state', None)
    if ps is None:
        return None
    return (bool(ps.in_math_mode), ps.math_mode_delimiter)


def canon(n, with_ps=True, with_pos=True):
    """Return a nested tuple/list/dict structure (JSON-able) describing `n`."""
    if n is None:
        return None
    if isinstance(n, (list, tuple, N.LatexNodeList)):
        items = [canon(x, with_ps, with_pos) for x in n]
        d = {'k': 'list', 'items': items}
        if with_pos and isinstance(n, N.LatexNodeList):
            d['pos'] = n.pos
            d['pos_end'] = n.pos_end
        return d
    k = kind(n)
    d = {'k': k}
    if with_pos:
        d['pos'] = n.pos
        d['pos_end'] = n.pos_end
    if with_ps:
        d['ps'] = _ps(n)
    if k == 'chars':
        d['chars'] = n.chars
    elif k == 'comment':
        d['comment'] = n.comment
        d['post_space'] = n.comment_post_space
    elif k == 'group':
        d['delims'] = list(n.delimiters) if n.delimiters is not None else None
        d['body'] = canon(n.nodelist, with_ps, with_pos)
    elif k == 'math':
        d['delims'] = list(n.delimiters) if n.delimiters is not None else None
        d['displaytype'] = n.displaytype
        d['body'] = canon(n.nodelist, with_ps, with_pos)
    elif k == 'macro':
        d['name'] = n.macroname
        d['post_space'] = n.macro_post_space
        d['args'] = _args(n, with_ps, with_pos)
    elif k == 'env':
        d['name'] = n.environmentname
        d['args'] = _args(n, with_ps, with_pos)
        d['body'] = canon(n.nodelist, with_ps, with_pos)
    elif k == 'specials':
        d['chars'] = n.specials_chars
        d['args'] = _args(n, with_ps, with_pos)
    else:
        d['repr'] = type(n).__name__
    return d


def _args(n, with_ps, with_pos):
    nad = getattr(n, 'nodeargd', None)
    if nad is None:
        return None
    al = getattr(nad, 'argnlist', None)
    if al is None:
        return {'argnlist': None}
    return {'argnlist': [canon(a, with_ps, with_pos) for a in al]}


def short(n):
    """One-line human-readable rendering of a tree, for samples and witnesses."""
    if n is None:
        return '-'
    if isinstance(n, (list, tuple, N.LatexNodeList)):
        return '[' + ' '.join(short(x) for x in n) + ']'
    k = kind(n)
    span = '@%s:%s' % (n.pos, n.pos_end)
    if k == 'chars':
        return 'C%s%r' % (span, n.chars)
    if k == 'comment':
        return '%%%s%r+%r' % (span, n.comment, n.comment_post_space)
    if k == 'group':
        return 'G%s%s%s' % (span, ''.join(n.delimiters or ('?', '?')), short(n.nodelist))
    if k == 'math':
        return 'M%s%s/%s%s' % (span, n.displaytype, ''.join(n.delimiters or ('?', '?')), short(n.nodelist))
    if k == 'macro':
        return '\\%s%s%s' % (n.macroname, span, _sargs(n))
    if k == 'env':
        return 'E:%s%s%s%s' % (n.environmentname, span, _sargs(n), short(n.nodelist))
    if k == 'specials':
        return 'S%s%r%s' % (span, n.specials_chars, _sargs(n))
    return '?%s' % type(n).__name__


def _sargs(n):
    nad = getattr(n, 'nodeargd', None)
    if nad is None:
        return '(noargd)'
    al = getattr(nad, 'argnlist', None)
    if al is None:
        return '(None)'
    return '(' + ','.join(short(a) for a in al) + ')'


def children(n):
    """Children in document order as the documentation describes them:
    arguments (slot order, None skipped) then body.  Node lists are expanded."""
    out = []
    if n is None:
        return out
    if isinstance(n, (list, tuple, N.LatexNodeList)):
        return [x for x in n if x is not None]
    nad = getattr(n, 'nodeargd', None)
    if nad is not None and getattr(nad, 'argnlist', None):
        for a in nad.argnlist:
            if a is not None:
                out.append(a)
    nl = getattr(n, 'nodelist', None)
    if nl is not None:
        out.append(nl)
    return out


def walk(n):
    """Yield all nodes (not lists) in pre-order."""
    if n is None:
        return
    if isinstance(n, (list, tuple, N.LatexNodeList)):
        for x in n:
            for y in walk(x):
                yield y
        return
    yield n
    for c in children(n):
        for y in walk(c):
            yield y
