"""KNOWN_FINDINGS.txt parser.  The file is never written at run time.

    finding: property=C13 key=<mechanism-key> <free text>
    fixed:   property=C06 <commit> <free text>

Only `finding:` lines suppress anything, and only for violations whose
*mechanism classifier* (coded in the check module, never an input hash)
returns exactly that key.
"""
import os, re

HERE = os.path.dirname(os.path.dirname(os.path.abspath(__file__)))
PATH = os.path.join(HERE, 'KNOWN_FINDINGS.txt')


def load(path=PATH):
    findings = {}   # (property, key) -> text
    fixed = []
    if not os.path.exists(path):
        return findings, fixed
    for line in open(path, encoding='utf-8'):
        line = line.strip()
        if not line or line.startswith('#'):
            continue
        m = re.match(r'finding:\s+property=(C\d+)\s+key=(\S+)\s*(.*)$', line)
        if m:
            findings[(m.group(1), m.group(2))] = m.group(3)
            continue
        m = re.match(r'fixed:\s+property=(C\d+)\s+(\S+)\s*(.*)$', line)
        if m:
            fixed.append((m.group(1), m.group(2), m.group(3)))
    return findings, fixed
