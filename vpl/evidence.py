"""Evidence writer: evidence/<id>.json per /root/.vp/EVIDENCE.schema.json."""
import os, json

ROOT = os.path.dirname(os.path.dirname(os.path.abspath(__file__)))
SCHEMA_PATHS = ['/root/.vp/EVIDENCE.schema.json', os.path.join(ROOT, 'schemas', 'EVIDENCE.schema.json')]


def _top(hist, n=40):
    items = sorted(hist.items(), key=lambda kv: (-kv[1], kv[0]))
    d = dict(items[:n])
    if len(items) > n:
        d['…(%d more keys)' % (len(items) - n)] = sum(v for _, v in items[n:])
    return d


def build(pid, chk, tier, seed, m, wall, status, known_hit, reasons, n_unknown):
    cov = {
        'evaluations': int(m['evaluations']),
        'distinct_nontrivial': len(m['distinct']),
        'rule': chk.RULE,
        'samples': m['samples'][:16] or ['(no sample recorded)'],
        'exhaustive': bool(getattr(chk, 'EXHAUSTIVE', {}).get(tier, False)),
        'verdict': status,
        'shards': m['shards'],
        'monitor_evaluations': m['monitors'],
        'histograms': {k: _top(v) for k, v in sorted(m['hists'].items())},
        'histogram_key_counts': {k: len(v) for k, v in sorted(m['hists'].items())},
        'measured': m['notes'],
        'known_findings_hit': {k: len(v) for k, v in known_hit.items()},
        'inconclusive_reasons': reasons,
        'floors': chk.floors(tier),
    }
    ev = {
        'property_id': pid,
        'tier': tier,
        'seed': int(seed),
        'level': chk.LEVEL,
        'coverage': cov,
        'assumptions': list(getattr(chk, 'ASSUMPTIONS', [])),
        'wall_s': round(wall, 2),
        'violations': int(n_unknown),
    }
    return ev


def write(pid, ev):
    d = os.environ.get('VERIF_EVIDENCE_DIR') or os.path.join(ROOT, 'evidence')
    os.makedirs(d, exist_ok=True)
    path = os.path.join(d, pid + '.json')
    try:
        import jsonschema
        for sp in SCHEMA_PATHS:
            if os.path.exists(sp):
                jsonschema.validate(ev, json.load(open(sp)))
                break
    except ImportError:
        pass
    tmp = path + '.tmp%d' % os.getpid()
    with open(tmp, 'w') as f:
        json.dump(ev, f, indent=1, sort_keys=True, default=repr, ensure_ascii=True)
    os.replace(tmp, path)
    return path
