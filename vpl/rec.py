"""Recorder: what one shard observed (counters, histograms, samples, violations)."""
import hashlib, json, time


def h64(obj):
    if not isinstance(obj, (bytes, str)):
        obj = json.dumps(obj, sort_keys=True, default=repr)
    if isinstance(obj, str):
        obj = obj.encode('utf-8', 'surrogatepass')
    return int.from_bytes(hashlib.blake2b(obj, digest_size=8).digest(), 'big')


class Recorder(object):
    MAX_VIOL = 400
    MAX_PER_MECH = 12
    MAX_SAMPLES = 12
    MAX_DISTINCT = 400000

    def __init__(self, shard_id='-'):
        self.shard_id = shard_id
        self.evaluations = 0
        self.distinct = set()
        self.hists = {}
        self.samples = []
        self.violations = []
        self.n_violations = 0
        self._per_mech = {}
        self.dropped_mechs = {}
        self.monitors = {}
        self.inconclusive = []
        self.notes = {}
        self.t0 = time.time()
        self._sample_every = 1
        self._sample_seen = 0

    # -- counters
    def case(self, n=1):
        self.evaluations += n

    def nontrivial(self, key):
        if len(self.distinct) < self.MAX_DISTINCT:
            self.distinct.add(h64(key))

    def hist(self, name, key, n=1):
        d = self.hists.setdefault(name, {})
        key = str(key)
        d[key] = d.get(key, 0) + n

    def monitor(self, name, n=1):
        self.monitors[name] = self.monitors.get(name, 0) + n

    def sample(self, obj):
        # keep a spread of samples: the first few, then exponentially rarer
        self._sample_seen += 1
        if self._sample_seen % self._sample_every:
            return
        if len(self.samples) >= self.MAX_SAMPLES:
            self.samples = self.samples[::2]
            self._sample_every *= 2
        self.samples.append(obj)

    def note_max(self, name, value):
        if value > self.notes.get(name, float('-inf')):
            self.notes[name] = value

    # -- verdict material
    def violation(self, case, msg, mech=None):
        # keep a bounded number of witnesses *per mechanism* so that many witnesses of one
        # (possibly known) mechanism can never crowd out a different one
        self.n_violations += 1
        k = str(mech)
        self._per_mech[k] = self._per_mech.get(k, 0) + 1
        if self._per_mech[k] <= self.MAX_PER_MECH and len(self.violations) < self.MAX_VIOL:
            self.violations.append({'case': case, 'msg': str(msg)[:2000], 'mech': mech})
        elif self._per_mech[k] > self.MAX_PER_MECH:
            self.dropped_mechs[k] = self.dropped_mechs.get(k, 0) + 1

    def inconclusive_case(self, why):
        if len(self.inconclusive) < 20:
            self.inconclusive.append(str(why)[:500])
        self.monitor('inconclusive_cases')

    def dump(self):
        return {
            'shard': self.shard_id,
            'evaluations': self.evaluations,
            'distinct': sorted(self.distinct),
            'hists': self.hists,
            'samples': self.samples,
            'violations': self.violations,
            'n_violations': self.n_violations,
            'dropped_mechs': self.dropped_mechs,
            'monitors': self.monitors,
            'inconclusive': self.inconclusive,
            'notes': self.notes,
            'wall_s': time.time() - self.t0,
        }
