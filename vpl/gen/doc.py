"""Document grammar: abstract documents with explicit whitespace, rendered to source
together with the ground-truth structure and the safe token boundaries.

The abstract syntax (every item is a tuple whose first element is the kind):

    ('T', text)                       plain text, no whitespace, safe alphabet
    ('W', ws)                         whitespace with at most one newline
    ('P', ws)                         paragraph break: whitespace with >= 2 newlines
    ('G', block)                      {...}
    ('M', name, args)                 macro call; args = one entry per declared slot:
                                        None                     absent
                                        (pre, 'star')            *
                                        (pre, 'mark', c)         t<c> marker
                                        (pre, 'grp', o, c, block) delimited by o..c
                                        (pre, 'tok', ch)         single character token
                                        (pre, 'tokm', name)      single argument-less macro token
                                        (pre, 'verb', o, c, text) verbatim delimited argument
                                      where pre is the whitespace/comment prefix written
                                      before the argument (list of ('W',..)/('C',..) items)
    ('E', name, args, block)          \\begin{name}args block \\end{name}
    ('MATH', open, close, block)      $..$  $$..$$  \\(..\\)  \\[..\\]
    ('C', text, post)                 %text + post (post: '\\n' + blanks, or '' before a
                                      paragraph break / at the very end of the document)
    ('S', chars)                      specials (~ -- --- `` '' & ...)
    ('VERB', delim, text)             \\verb<delim>text<delim>
    ('VENV', name, text)              \\begin{verbatim}text\\end{verbatim}

Rendering never patches a document to make it unambiguous: if a random draw is
ambiguous under LaTeX's adjacency rules the whole derivation is re-drawn
(`Redraw`).  The ground truth is therefore true by construction.
"""
import random

SAFE_TEXT = 'abcdefghijklmnopqrstuvwxyzABCXYZ0123456789.;:/'
LETTERS = 'abcdefghijklmnopqrstuvwxyzABCXYZ'
WS_CHOICES = [' ', ' ', '  ', '\n', ' \n', '\n ', ' \n  ', '\t']
PAR_CHOICES = ['\n\n', '\n\n', '\n \n', ' \n\n', '\n\n ', '\n\n\n', ' \n \n ']
MATH_DELIMS = [('$', '$'), ('$$', '$$'), ('\\(', '\\)'), ('\\[', '\\]')]

OPENERS = {'*': '*', 's': '*', '[': '[', 'o': '[', 'AnyDelimitedOptional': '{[(<'}
ANY_DELIMS = [('{', '}'), ('[', ']'), ('(', ')'), ('<', '>')]


class Redraw(Exception):
    pass


def slot_opener(kind):
    """Opening character of an *optional* slot kind (None for mandatory kinds)."""
    if kind in OPENERS:
        return OPENERS[kind]
    if kind[0] == 't':
        return kind[1]
    if kind[0] == 'd':
        return kind[1]
    if kind.startswith('e{'):
        return kind[2:-1]
    return None


class Vocab(object):
    """What the generator may use and how it is declared.

    macros: name -> {'sig': [slot kinds], 'mode': [None|'text'|'math' per slot], 'math_only': bool,
                     'text_only': bool}
    envs:   name -> {'sig': [...], 'math': bool}
    """
    def __init__(self, macros, envs, specials, math_specials=(), unknown_ok=True, verb=True,
                 par_is_specials=True, make_ctx=None, name='default', verb_envs=()):
        self.macros = macros
        self.verb_envs = list(verb_envs)   # environments whose body is read by LatexVerbatimEnvironmentContentsParser
        self.envs = envs
        self.specials = list(specials)
        self.math_specials = list(math_specials)
        self.unknown_ok = unknown_ok
        self.verb = verb
        self.par_is_specials = par_is_specials
        self.make_ctx = make_ctx
        self.name = name
        self.noarg_macros = sorted(n for n, d in macros.items()
                                   if not d['sig'] and n.isalpha() and not d.get('math_only'))
        self.noarg_math_macros = sorted(n for n, d in macros.items() if not d['sig'] and n.isalpha()
                                        and not d.get('text_only'))


def M(sig, mode=None, **kw):
    sig = list(sig)
    d = {'sig': sig, 'mode': list(mode) if mode else [None] * len(sig)}
    d.update(kw)
    return d


def default_vocab():
    """A hand-written vocabulary of standard LaTeX (signatures from the LaTeX documentation,
    not read from pylatexenc's database)."""
    macros = {
        'textbf': M('{', ['text']), 'textit': M('{', ['text']), 'emph': M('{'), 'texttt': M('{', ['text']),
        'text': M('{', ['text'], math_only=True), 'mbox': M('{', ['text']),
        'mathrm': M('{', math_only=True), 'mathbf': M('{', math_only=True),
        'ensuremath': M('{', ['math']),
        'section': M('*[{'), 'subsection': M('*[{'), 'chapter': M('*[{'), 'paragraph': M('*[{'),
        'sqrt': M('[{', math_only=True), 'frac': M('{{', math_only=True),
        'hat': M('{', math_only=True), 'vec': M('{', math_only=True), 'bar': M('{', math_only=True),
        'overline': M('{', math_only=True),
        "'": M('{', text_only=True), '`': M('{', text_only=True), '"': M('{', text_only=True),
        '^': M('{', text_only=True), '~': M('{', text_only=True), 'c': M('{', text_only=True),
        'item': M('['), '\\': M(['*', '[nospace']),
        'cite': M('*[[{'), 'citet': M('*[[{'), 'label': M('{'), 'ref': M('{'),
        'footnote': M('[{'), 'includegraphics': M('[{'), 'documentclass': M('[{'), 'usepackage': M('[{'),
        'hspace': M('*{'), 'vspace': M('*{'), 'newcommand': M('*{[[{'),
        'textcolor': M('[{{'), 'xrightarrow': M('[{', math_only=True),
        'title': M('{'), 'author': M('{'),
        # argument-less
        'alpha': M('', math_only=False), 'beta': M(''), 'gamma': M(''), 'ldots': M(''), 'infty': M(''),
        'to': M(''), 'times': M(''), 'leq': M(''), 'ss': M(''), 'o': M(''), 'ae': M(''), 'LaTeX': M(''),
        'maketitle': M(''), 'par': M(''), 'noindent': M(''), 'quad': M(''), 'hline': M(''),
        '&': M(''), '%': M(''), '$': M(''), '#': M(''), '_': M(''), '{': M(''), '}': M(''), ',': M(''), ' ': M(''),
    }
    envs = {
        'itemize': M('['), 'enumerate': M('['), 'description': M('['),
        'center': M(''), 'abstract': M(''), 'document': M(''), 'quote': M(''),
        'figure': M('['), 'table': M('['), 'tabular': M('{'), 'array': M('[{', math_only=True),
        'theorem': M('['), 'proof': M('['), 'lemma': M('['),
        'equation': M('', math=True), 'equation*': M('', math=True), 'align': M('', math=True),
        'align*': M('', math=True), 'gather': M('', math=True), 'multline*': M('', math=True),
        'alignat': M('{', math=True), 'eqnarray': M('', math=True), 'split': M('', math=True, math_only=True),
        'flalign*': M('', math=True),
    }
    return Vocab(macros, envs, specials=['~', '--', '---', '``', "''", '&'],
                 math_specials=['~', '&'], unknown_ok=True, verb=True, name='default')


def core_vocab():
    """The core sublanguage of latex2text (C03): text, groups, font macros, symbols, accents, fractions,
    specials, comments, paragraphs, lists, unknown environments, inline/display math."""
    from ..model import l2t as L
    macros = {}
    for n in ('textbf', 'emph', 'textit', 'texttt', 'textsc'):
        macros[n] = M('{', ['text'] if n != 'emph' else None)
    macros['text'] = M('{', ['text'], math_only=True)
    macros['mathrm'] = M('{', math_only=True)
    for n in L.SYMBOLS:
        if n in ('i', 'j'):
            continue
        macros[n] = M('')
    for n in L.CONTROL_SYMBOLS:
        macros[n] = M('')
    for n in L.ACCENTS:
        macros[n] = M('{', text_only=True, letterarg='aeoucnzAEO', letterarg_macros=['i'] if n in "'`^\"" else None)
    macros['frac'] = M('{{', math_only=True)
    macros['sqrt'] = M('[{', math_only=True)
    macros['item'] = M('[', text_only=True)
    envs = {'itemize': M('['), 'enumerate': M('['), 'zzenv': M(''), 'myenv': M('')}
    v = Vocab(macros, envs, specials=['~', '--', '---', '``', "''", '&'], math_specials=['~', '&'],
              unknown_ok=False, verb=False, name='core')
    return v


class Gen(object):
    """Random derivations.  `profile` restricts the item kinds; see `gen_doc`."""

    def __init__(self, rng, vocab, max_depth=4, profile=None):
        self.rng = rng
        self.v = vocab
        self.max_depth = max_depth
        p = {'group': 1.0, 'macro': 3.0, 'env': 1.0, 'math': 1.2, 'comment': 0.6, 'specials': 0.8,
             'par': 0.5, 'verb': 0.3, 'text': 3.0, 'tokarg': 0.3, 'ws': 0.45, 'arg_ws': 0.25,
             'arg_comment': 0.06, 'unknown': 0.15, 'absent': 0.5, 'nested_math': 0.5,
             'verb_chars': None}
        if profile:
            p.update(profile)
        self.p = p
        self._braced = [False]

    # ---- pieces
    BRACKETED = ['[a,b]', ']', '[', '(x)', '<', '>', 'a]b', '[[', ')(', '[x', 'y]', '<z>']

    def braced_block(self, braced, *a, **kw):
        """Generate a block remembering whether it is protected by braces: inside {...} the delimiter
        characters [ ] ( ) < > are ordinary text whatever non-brace argument encloses the braces."""
        self._braced.append(braced)
        try:
            return self.block(*a, **kw)
        finally:
            self._braced.pop()

    def text(self, math=False):
        if self._braced[-1] and self.p.get('bracket_text', 0.15) and self.rng.random() < self.p.get('bracket_text', 0.15):
            return self.rng.choice(self.BRACKETED)
        n = self.rng.randint(1, 4)
        alpha = SAFE_TEXT if not math else 'abcxyzn0123456789'
        t = ''.join(self.rng.choice(alpha) for _ in range(n))
        if not math and self.p.get('unicode_text', 0.06) and self.rng.random() < self.p.get('unicode_text', 0.06):
            # non-ASCII text (one code point each, incl. astral): positions are code-point offsets
            t += self.rng.choice(['é', 'ß', 'λ', '中', '\U0001d538', 'ñ', '€'])
        return t

    def ws(self):
        return self.rng.choice(WS_CHOICES)

    def block(self, depth, math, toplevel=False, closer=None, maxn=None):
        rng = self.rng
        if maxn is None:
            maxn = 5 if depth < 2 else (3 if depth < self.max_depth else 1)
        n = rng.randint(0, maxn)
        items = []
        for _ in range(n):
            it = self.item(depth, math, toplevel)
            if it is None:
                continue
            items.append(it)
        return self.space_out(items, toplevel, math)

    def _ends_with_word(self, it):
        """Does the rendering of this item end with a control word (letters)?"""
        if it[0] != 'M':
            return False
        name, args = it[1], it[2]
        present = [a for a in args if a is not None]
        if not present:
            return bool(name) and name[-1].isalpha()
        return present[-1][1] == 'tokm'

    def space_out(self, items, toplevel, math):
        """Insert explicit whitespace / paragraph items and fix comment post-space."""
        rng = self.rng
        seq = []
        for it in items:
            if it[0] == 'P' and math:
                continue                    # no paragraph breaks inside formulas
            if it[0] == 'T' and seq and seq[-1][0] == 'T':
                seq[-1] = ('T', seq[-1][1] + it[1])     # adjacent text is one chars node
            elif it[0] == 'P' and seq and seq[-1][0] == 'P':
                continue
            else:
                seq.append(it)
        out = []
        n = len(seq)
        if seq and seq[0][0] not in ('P',) and rng.random() < 0.12:
            out.append(('W', self.ws()))
        for i, it in enumerate(seq):
            nxt = seq[i + 1] if i + 1 < n else None
            if it[0] == 'C':
                if nxt is not None and nxt[0] == 'P':
                    out.append(('C', it[1], ''))
                elif nxt is None and toplevel and rng.random() < 0.5:
                    out.append(('C', it[1], ''))
                else:
                    out.append(('C', it[1], '\n' + rng.choice(['', '', ' ', '  '])))
                continue
            if it[0] == 'P':
                if out and out[-1][0] == 'C':
                    out.append(('P', rng.choice(['\n\n', '\n \n', '\n\n\n', '\n\n '])))
                elif out and out[-1][0] == 'W':
                    out[-1] = it
                else:
                    out.append(it)
                continue
            out.append(it)
            if nxt is None:
                if rng.random() < 0.12:
                    out.append(('W', self.ws()))
                continue
            if nxt[0] == 'P':
                continue
            need = self._ends_with_word(it) and nxt[0] == 'T' and nxt[1][0].isalpha()
            if need or rng.random() < self.p['ws']:
                out.append(('W', self.ws()))
        if not toplevel:
            while out and out[0][0] == 'P':
                out.pop(0)
            while out and out[-1][0] == 'P':
                out.pop()
        return out

    def item(self, depth, math, toplevel):
        rng, p = self.rng, self.p
        deep = depth >= self.max_depth
        kinds = [('text', p['text'])]
        if not deep:
            kinds += [('group', p['group']), ('macro', p['macro']), ('env', p['env'])]
            if not math:
                kinds.append(('math', p['math']))
        else:
            kinds.append(('macro0', p['macro']))
        kinds.append(('comment', p['comment']))
        kinds.append(('specials', p['specials']))
        if not math:
            kinds.append(('par', p['par']))
            if self.v.verb or self.v.verb_envs:
                kinds.append(('verb', p['verb']))
        tot = sum(w for _, w in kinds)
        r = rng.random() * tot
        for k, w in kinds:
            r -= w
            if r < 0:
                break
        if k == 'text':
            return ('T', self.text(math))
        if k == 'group':
            return ('G', self.braced_block(True, depth + 1, math))
        if k == 'macro':
            return self.macro(depth, math)
        if k == 'macro0':
            names = self.v.noarg_math_macros if math else self.v.noarg_macros
            if not names:
                return ('T', self.text(math))
            return ('M', rng.choice(names), [])
        if k == 'env':
            return self.env(depth, math)
        if k == 'math':
            o, c = rng.choice(MATH_DELIMS)
            b = self.block(depth + 1, True)
            return ('MATH', o, c, b)
        if k == 'comment':
            return ('C', rng.choice(['', 'c', 'com ment', 'x{}$', '\\end{x}', '%%', ' a }']), None)
        if k == 'specials':
            sp = self.v.math_specials if math else self.v.specials
            if not sp:
                return ('T', self.text(math))
            return ('S', rng.choice(sp))
        if k == 'par':
            return ('P', rng.choice(PAR_CHOICES))
        if k == 'verb':
            if self.v.verb_envs and (not self.v.verb or rng.random() < 0.4):
                # pylatexenc-3 style verbatim environment: the body is one character node; the newline that ends
                # the \\begin line is not part of it (blanks before that newline are)
                txt = ''.join(rng.choice(list(p['verb_chars'] or ()) or ['a', 'b', ' ', '\n', '\\', '{', '}', '$', '%', '&', '\\end{x}'])
                              for _ in range(rng.randint(0, 6)))
                txt = rng.choice(['', '', '\n', '\n', ' \n', '\t\n', '  \n', '\n\n', ' ']) + txt
                return ('VENV', rng.choice(self.v.verb_envs), txt)
            if rng.random() < 0.7:
                d = rng.choice('|!+/"')
                txt = ''.join(rng.choice(p['verb_chars'] or 'ab \\{}$%&~_^#[]') for _ in range(rng.randint(0, 5)))
                return ('VERB', d, txt)
            txt = ''.join(rng.choice(list(p['verb_chars'] or ()) or ['a', ' ', '\n', '\\', '{', '}', '$', '%', '&', '\\end{x}'])
                          for _ in range(rng.randint(0, 6)))
            return ('VENV', 'verbatim', txt)
        return ('T', self.text(math))

    def choose_macro(self, math):
        rng = self.rng
        names = [n for n, d in self.v.macros.items()
                 if not (d.get('math_only') and not math) and not (d.get('text_only') and math) and not d.get('hidden')]
        return rng.choice(sorted(names))

    def macro(self, depth, math):
        rng = self.rng
        if self.v.unknown_ok and rng.random() < self.p['unknown']:
            return ('M', rng.choice(['zzunk', 'myfoo', 'Qx']), [])
        name = self.choose_macro(math)
        d = self.v.macros[name]
        return ('M', name, self.args(d, depth, math))

    def env(self, depth, math):
        rng = self.rng
        if self.v.unknown_ok and rng.random() < self.p['unknown']:
            return ('E', rng.choice(['zzenv', 'myenv', 'un-known', 'zz*', 'u.v_w:x/y']), [], self.block(depth + 1, math))
        names = sorted(n for n, d in self.v.envs.items()
                       if ((d.get('math_only') or not d.get('math')) if math else not d.get('math_only')))
        if not names:
            return ('T', self.text(math))
        name = rng.choice(names)
        d = self.v.envs[name]
        body_math = math or bool(d.get('math'))
        return ('E', name, self.args(d, depth, math, is_env=True), self.block(depth + 1, body_math))

    def arg_pre(self, kind, first_after_word):
        """Whitespace / comment written before an argument."""
        rng = self.rng
        pre = []
        if kind == '[nospace':
            return pre
        if rng.random() < self.p['arg_ws']:
            pre.append(('W', self.ws()))
        if kind in ('{', 'm') and rng.random() < self.p['arg_comment']:
            pre.append(('C', rng.choice(['c', 'arg', '']), '\n' + rng.choice(['', ' '])))
        return pre

    def args(self, d, depth, math, is_env=False):
        rng = self.rng
        out = []
        for kind, mode in zip(d['sig'], d['mode']):
            amath = math if mode is None else (mode == 'math')
            opt = slot_opener(kind) is not None or kind == '[nospace'
            if opt and rng.random() < self.p['absent']:
                out.append(None)
                continue
            pre = self.arg_pre(kind, True)
            if kind in ('*', 's'):
                out.append((pre, 'star'))
            elif kind in ('AnyDelimited', 'AnyDelimitedOptional'):
                o, c = rng.choice(ANY_DELIMS)
                out.append((pre, 'grp', o, c, self.braced_block(o == '{', depth + 1, amath, maxn=2)))
            elif kind.startswith('e{'):
                # embellishments: each listed character at most once, in any order, each followed by one argument
                chars = list(kind[2:-1])
                rng.shuffle(chars)
                embs = []
                for ch in chars[:rng.randint(1, len(chars))]:
                    if rng.random() < 0.5:
                        embs.append((ch, 'tok', rng.choice('abxy12')))
                    else:
                        embs.append((ch, 'grp', rng.choice(['', 'u', 'v w', 'p{q}'])))
                out.append(([w for w in pre if w[0] == 'W'], 'emb', embs))
            elif kind[0] == 't':
                out.append((pre, 'mark', kind[1]))
            elif kind in ('[', 'o', '[nospace'):
                out.append((pre, 'grp', '[', ']', self.braced_block(False, depth + 1, amath, maxn=2)))
            elif kind in ('{', 'm') and d.get('letterarg'):
                r = rng.random()
                if r < 0.45:
                    out.append((pre, 'tok', rng.choice(d['letterarg'])))
                elif r < 0.6 and d.get('letterarg_macros'):
                    out.append((pre, 'tokm', rng.choice(d['letterarg_macros'])))
                else:
                    out.append((pre, 'grp', '{', '}', [('T', rng.choice(d['letterarg']))]))
            elif kind in ('{', 'm'):
                r = rng.random()
                if r < self.p['tokarg'] and not is_env:
                    if rng.random() < 0.6 or not (self.v.noarg_math_macros if amath else self.v.noarg_macros):
                        out.append((pre, 'tok', rng.choice('abcxyz0123456789')))
                    else:
                        out.append((pre, 'tokm', rng.choice(self.v.noarg_math_macros if amath
                                                            else self.v.noarg_macros)))
                else:
                    out.append((pre, 'grp', '{', '}', self.braced_block(True, depth + 1, amath, maxn=3)))
            elif kind[0] == 'r':
                out.append((pre, 'grp', kind[1], kind[2], self.braced_block(False, depth + 1, amath, maxn=2)))
            elif kind[0] == 'd':
                out.append((pre, 'grp', kind[1], kind[2], self.braced_block(False, depth + 1, amath, maxn=2)))
            elif kind[0] == 'v':
                if len(kind) == 3:
                    o, c = kind[1], kind[2]
                else:
                    o, c = rng.choice([('{', '}'), ('|', '|'), ('!', '!'), ('[', ']'), ('<', '>'), ('(', ')')])
                txt = ''.join(rng.choice(self.p['verb_chars'] or 'ab \\$%&~_#') for _ in range(rng.randint(0, 5)))
                if o != c and rng.random() < 0.4:
                    txt = txt + o + 'x' + c + 'y'       # nested delimiters
                # verbatim arguments: whitespace before the delimiter is skipped
                vpre = [x for x in pre if x[0] == 'W']
                out.append((vpre, 'verb', o, c, txt))
            else:
                raise ValueError('unknown slot kind %r' % (kind,))
        return out

    def document(self):
        return self.block(0, False, toplevel=True, maxn=6)


# ------------------------------------------------------------------ rendering

class Rendered(object):
    def __init__(self):
        self.parts = []
        self.n = 0
        self.bounds = []          # positions where a token may be inserted (outside verbatim/comments)
        self.forbid = set()       # characters that must not start the next non-blank emission
        self.forbid_adj = set()   # characters that must not follow immediately (cleared by blanks too)
        self.after_word = False   # previous emission was a control word (letters)
        self.last = ''            # last emitted string
        self.in_comment = False   # an unterminated comment line is open (no boundary is safe)
        self.unsafe_depth = 0     # > 0 while rendering the arguments up to a verbatim argument
        self.tspans = []          # (start, end, in_math, delimiter) of every plain-text piece written
        self.mspans = []          # (start, end, open, close) of every formula written
        self.vspans = []          # (text start, text end, open, close) of every verbatim argument written

    def emit(self, s, safe=True, blank=False):
        if not s:
            return
        if not blank:
            c = s[0]
            if c in self.forbid:
                raise Redraw('absent optional slot followed by its opener %r' % c)
            if c in self.forbid_adj:
                raise Redraw('character %r would extend the preceding specials' % c)
            if self.after_word and c.isalpha():
                raise Redraw('control word directly followed by a letter')
            self.forbid = set()
            self.after_word = False
        else:
            self.after_word = False      # whitespace ends a control word
        self.forbid_adj = set()
        if safe and not self.in_comment and self.unsafe_depth == 0:
            self.bounds.append(self.n)
        if self.in_comment:
            if not (blank and '\n' in s):
                raise Redraw('material on an open comment line')
            self.in_comment = False
        self.parts.append(s)
        self.n += len(s)
        self.last = s

    def source(self):
        return ''.join(self.parts)


LAST_RENDER = {}


def render(doc, vocab):
    """Return (source, safe boundaries).  Raises Redraw for ambiguous derivations."""
    r = Rendered()
    _render_block(doc, r, vocab, top=True)
    if r.forbid:
        pass    # absent optional slot at the very end: fine
    if not r.in_comment:
        r.bounds.append(r.n)
    LAST_RENDER['tspans'] = r.tspans
    LAST_RENDER['mspans'] = r.mspans
    LAST_RENDER['vspans'] = r.vspans
    return r.source(), sorted(set(r.bounds))


def _render_block(items, r, vocab, top=False, math=False, mdelim=None):
    n = len(items)
    for i, it in enumerate(items):
        k = it[0]
        prev = items[i - 1] if i > 0 else None
        if k == 'T':
            r.tspans.append((r.n, r.n + len(it[1]), bool(math), mdelim if math else None))
            r.emit(it[1])
        elif k == 'W':
            r.emit(it[1], blank=True)
        elif k == 'P':
            r.emit(it[1], blank=True)
            r.forbid = set()      # a paragraph break ends the search for optional arguments
        elif k == 'G':
            r.emit('{')
            _render_block(it[1], r, vocab, math=math, mdelim=mdelim)
            r.forbid = set()
            r.after_word = False
            r.emit('}')
        elif k == 'M':
            _render_macro(it, r, vocab, math, mdelim)
        elif k == 'E':
            r.emit('\\begin{%s}' % it[1])
            d = vocab.envs.get(it[1])
            _render_args(d, it[2], r, vocab, math, mdelim)
            if d and d.get('math'):
                _render_block(it[3], r, vocab, math=True, mdelim='<env>')
            else:
                _render_block(it[3], r, vocab, math=math, mdelim=mdelim)
            r.forbid = set()
            r.after_word = False
            r.emit('\\end{%s}' % it[1])
        elif k == 'MATH':
            o, c, b = it[1], it[2], it[3]
            if o[0] == '$':
                if r.last.endswith('$') and not (r.last == '$' and o == '$') and not (r.last == '$$' and o == '$$'):
                    raise Redraw('dollar formulas of different kinds adjacent')
                if not b:
                    raise Redraw('empty dollar formula')
            mstart = r.n
            r.emit(o)
            start = len(r.parts)
            _render_block(b, r, vocab, math=True, mdelim=o)
            body = ''.join(r.parts[start:])
            if o[0] == '$' and (body[:1] == '$' or body[-1:] == '$' or not body.strip()):
                raise Redraw('dollar formula body starts/ends with a dollar or is blank')
            r.forbid = set()
            r.after_word = False
            r.emit(c)
            r.mspans.append((mstart, r.n, o, c))
        elif k == 'C':
            last_of_doc = top and i == n - 1
            post = it[2]
            if post is None:
                post = '\n'
            nxt = items[i + 1] if i + 1 < n else None
            if post == '' and not (nxt is not None and nxt[0] == 'P') and not last_of_doc:
                raise Redraw('comment without newline inside a block')
            if nxt is not None and nxt[0] in ('W',):
                raise Redraw('whitespace item after comment')
            r.emit('%', blank=True)
            r.parts.append(it[1])
            r.n += len(it[1])
            if post:
                r.parts.append(post)
                r.n += len(post)
            r.last = post or it[1] or '%'
            r.after_word = False
            r.in_comment = (post == '')
        elif k == 'S':
            if prev is not None and prev[0] == 'S':
                raise Redraw('adjacent specials')
            if r.last and r.last[-1] in "-`'!?" and not r.last.startswith('%'):
                raise Redraw('specials after a character that could extend it')
            r.emit(it[1])
        elif k == 'VERB':
            if it[1] in it[2] or '\n' in it[2]:
                raise Redraw('verb delimiter inside text')
            r.emit('\\verb')
            r.after_word = False
            s = it[1] + it[2] + it[1]
            r.parts.append(s)
            r.n += len(s)
            r.last = s
        elif k == 'VENV':
            if '\\end{%s}' % it[1] in it[2]:
                raise Redraw('verbatim terminator inside text')
            r.emit('\\begin{%s}' % it[1])
            s = it[2] + '\\end{%s}' % it[1]
            r.parts.append(s)
            r.n += len(s)
            r.last = s
        else:
            raise ValueError('unknown item %r' % (it,))
        if k == 'S':
            # the next character must not extend the specials sequence
            r.forbid_adj = set("-`'")


def _render_macro(it, r, vocab, math, mdelim=None):
    name, args = it[1], it[2]
    r.emit('\\' + name)
    if name and name[-1].isalpha():
        r.after_word = True
    d = vocab.macros.get(name)
    _render_args(d, args, r, vocab, math, mdelim)


def _render_args(d, args, r, vocab, math, mdelim=None):
    sig = d['sig'] if d else []
    modes = d['mode'] if d else []
    if len(sig) != len(args):
        raise ValueError('signature/argument mismatch')
    pending = set()
    last_v = -1
    for i, a in enumerate(args):
        if a is not None and a[1] == 'verb':
            last_v = i
    if last_v >= 0:
        r.unsafe_depth += 1
    for ai, (kind, a) in enumerate(zip(sig, args)):
        amode = modes[ai] if ai < len(modes) else None
        if amode == 'text':
            amath, adelim = False, None
        elif amode == 'math':
            amath, adelim = True, '<arg>'
        else:
            amath, adelim = math, mdelim
        if a is None:
            op = slot_opener(kind) or ('[' if kind == '[nospace' else None)
            if op:
                pending.update(op)
            continue
        pre, what = a[0], a[1]
        r.forbid = set()        # checked explicitly below against `pending`
        # the delimiter of a verbatim argument is whatever character comes first: nothing may be
        # inserted between the call and that delimiter without changing what is verbatim
        vsafe = (ai > last_v)
        for w in pre:
            if w[0] == 'W':
                if '\n' in w[1] and w[1].count('\n') > 1:
                    raise Redraw('paragraph break before argument')
                r.emit(w[1], blank=True, safe=vsafe)
            else:
                r.emit('%', blank=True)
                r.parts.append(w[1] + w[2])
                r.n += len(w[1] + w[2])
                r.last = w[2]
                r.after_word = False
        if what == 'star':
            first = '*'
        elif what == 'mark':
            first = a[2]
        elif what == 'grp':
            first = a[2]
        elif what == 'tok':
            first = a[2]
        elif what == 'tokm':
            first = '\\'
        elif what == 'verb':
            first = a[2]
        elif what == 'emb':
            first = a[2][0][0]
        if first in pending:
            raise Redraw('argument starts with the opener of an absent optional slot before it')
        pending = set()
        if what == 'star':
            r.emit('*', safe=vsafe)
        elif what == 'mark':
            r.emit(a[2], safe=vsafe)
        elif what == 'grp':
            o, c, b = a[2], a[3], a[4]
            r.emit(o, safe=vsafe)
            start = len(r.parts)
            _render_block(b, r, vocab, math=amath, mdelim=adelim)
            if o != '{':
                body = ''.join(r.parts[start:])
                # the closing delimiter must not occur at the top level of the body
                depth = 0
                for ch in _strip_protected(body):
                    if ch == '{':
                        depth += 1
                    elif ch == '}':
                        depth -= 1
                    elif ch == c and depth == 0:
                        raise Redraw('closing delimiter inside delimited argument')
                    elif ch == o and depth == 0 and o != c:
                        raise Redraw('opening delimiter inside delimited argument')
            r.forbid = set()
            r.after_word = False
            r.emit(c)
        elif what == 'emb':
            for ei, (ch, form, val) in enumerate(a[2]):
                r.emit(ch, safe=vsafe and ei == 0)
                r.after_word = False
                if form == 'tok':
                    r.emit(val, safe=False)
                else:
                    r.emit('{' + val + '}', safe=False)
            # a character of the list that was not used would still be read as an embellishment
            pending = set(kind[2:-1]) - set(e[0] for e in a[2])
        elif what == 'tok':
            r.tspans.append((r.n, r.n + len(a[2]), bool(amath), adelim if amath else None))
            r.emit(a[2], safe=vsafe)
        elif what == 'tokm':
            r.emit('\\' + a[2], safe=vsafe)
            r.after_word = True
        elif what == 'verb':
            o, c, txt = a[2], a[3], a[4]
            depth = 0
            if o == c:
                if c in txt:
                    raise Redraw('verbatim delimiter in text')
            else:
                for ch in txt:
                    if ch == o:
                        depth += 1
                    elif ch == c:
                        depth -= 1
                        if depth < 0:
                            raise Redraw('unbalanced verbatim text')
                if depth != 0:
                    raise Redraw('unbalanced verbatim text')
            if r.after_word and not pre and o.isalpha():
                raise Redraw('letter delimiter after control word')
            r.emit(o, safe=False)
            r.vspans.append((r.n, r.n + len(txt), o, c))
            s = txt + c
            r.parts.append(s)
            r.n += len(s)
            r.last = s
        if ai == last_v:
            r.unsafe_depth -= 1
    r.forbid |= pending


def _strip_protected(body):
    """Remove comments, \\verb and control symbols so that delimiter scanning only sees
    characters that the tokenizer would see as delimiters."""
    out = []
    i = 0
    n = len(body)
    while i < n:
        ch = body[i]
        if ch == '\\' and i + 1 < n:
            i += 2
            continue
        if ch == '%':
            j = body.find('\n', i)
            i = n if j < 0 else j
            continue
        out.append(ch)
        i += 1
    return out


def gen_doc(rng, vocab, max_depth=4, profile=None, tries=200):
    """Draw derivations until one renders unambiguously.  Returns (ast, source, bounds, redraws)."""
    g = Gen(rng, vocab, max_depth=max_depth, profile=profile)
    for t in range(tries):
        doc = g.document()
        try:
            src, bounds = render(doc, vocab)
        except Redraw:
            continue
        return doc, src, bounds, t
    raise RuntimeError('no unambiguous derivation in %d tries' % tries)


# ------------------------------------------------------------------ expected structure

def expected(doc, vocab, math=False):
    """Ground-truth structure in the normal form used for comparison with `normalize_parsed`:
    whitespace removed from text, whitespace-only text dropped, adjacent text merged."""
    out = []

    def add_text(t):
        t = ''.join(t.split())
        if not t:
            return
        if out and out[-1][0] == 'T':
            out[-1] = ('T', out[-1][1] + t)
        else:
            out.append(('T', t))
    for it in doc:
        k = it[0]
        if k == 'T':
            add_text(it[1])
        elif k == 'W':
            continue
        elif k == 'P':
            if vocab.par_is_specials:
                out.append(('P',))
        elif k == 'G':
            out.append(('G', '{', '}', expected(it[1], vocab, math)))
        elif k == 'M':
            d = vocab.macros.get(it[1])
            out.append(('M', it[1], _expected_args(d, it[2], vocab, math)))
        elif k == 'E':
            d = vocab.envs.get(it[1])
            bmath = math or bool(d and d.get('math'))
            out.append(('E', it[1], _expected_args(d, it[2], vocab, math), expected(it[3], vocab, bmath)))
        elif k == 'MATH':
            out.append(('MATH', it[1], it[2], 'inline' if it[1] in ('$', '\\(') else 'display',
                        expected(it[3], vocab, True)))
        elif k == 'C':
            out.append(('C', it[1]))
        elif k == 'S':
            out.append(('S', it[1]))
        elif k == 'VERB':
            out.append(('M', 'verb', [('VT', it[2])]))
        elif k == 'VENV':
            if it[1] in vocab.verb_envs:
                out.append(('E', it[1], [], [('VT', it[2][1:] if it[2].startswith('\n') else it[2])]))
            else:
                out.append(('E', it[1], [('VT', it[2])], []))
    return out


def _expected_args(d, args, vocab, math):
    if d is None:
        return []
    res = []
    for kind, mode, a in zip(d['sig'], d['mode'], args):
        amath = math if mode is None else (mode == 'math')
        if a is None:
            res.append(None)
            continue
        what = a[1]
        if what == 'star':
            res.append(('T', '*'))
        elif what == 'mark':
            res.append(('T', a[2]))
        elif what == 'grp':
            res.append(('G', a[2], a[3], expected(a[4], vocab, amath)))
        elif what == 'tok':
            res.append(('T', a[2]))
        elif what == 'tokm':
            res.append(('M', a[2], []))
        elif what == 'verb':
            res.append(('G', a[2], a[3], [('VT', a[4])] if a[4] else []))
        elif what == 'emb':
            items = []
            for ch, form, val in a[2]:
                if form == 'tok':
                    items.append(('G', ch, '', [('T', val)]))
                else:
                    inner = [('T', 'p'), ('G', '{', '}', [('T', 'q')])] if val == 'p{q}' else \
                            ([('T', ''.join(val.split()))] if val else [])
                    items.append(('G', ch, '', [('G', '{', '}', inner)]))
            res.append(items[0] if len(items) == 1 else ('L', items))
    return res


def normalize_parsed(nodes, keep_blank=True):
    """Normal form of a parsed node list (see `expected`).  Uses public node attributes only.
    Text is ('T', text without whitespace, raw text); whitespace-only text is dropped."""
    from ..mon.canon import kind as nkind
    out = []
    for n in (nodes or []):
        if n is None:
            continue
        c = normalize_node(n)
        if c is None:
            continue
        if c[0] == 'T':
            if out and out[-1][0] == 'T':
                out[-1] = ('T', out[-1][1] + c[1], out[-1][2] + c[2])
                continue
        out.append(c)
    return [c for c in out if not (c[0] == 'T' and not c[1] and not keep_blank)]


def normalize_node(n):
    from ..mon.canon import kind as nkind
    from pylatexenc.latexnodes import nodes as N
    if n is None:
        return None
    if isinstance(n, (list, tuple, N.LatexNodeList)):
        x = normalize_parsed(n, keep_blank=False)
        if len(x) == 1:
            return x[0]
        return ('L', x)
    k = nkind(n)
    if k == 'chars':
        return ('T', ''.join(n.chars.split()), n.chars)
    if k == 'group':
        o, c = n.delimiters
        body = normalize_parsed(n.nodelist)
        return ('G', o, c, body)
    if k == 'comment':
        return ('C', n.comment)
    if k == 'macro':
        return ('M', n.macroname, _norm_args(n))
    if k == 'env':
        return ('E', n.environmentname, _norm_args(n), normalize_parsed(n.nodelist))
    if k == 'math':
        o, c = n.delimiters
        return ('MATH', o, c, n.displaytype, normalize_parsed(n.nodelist))
    if k == 'specials':
        if n.specials_chars == '\n\n':
            return ('P',)
        return ('S', n.specials_chars)
    return ('?', type(n).__name__)


def _norm_args(n):
    nad = getattr(n, 'nodeargd', None)
    if nad is None or getattr(nad, 'argnlist', None) is None:
        return []
    return [normalize_node(a) for a in nad.argnlist]


def same(exp, got, path='doc'):
    """Compare expected structure with normalised parse.  Returns None or a mismatch description."""
    if exp is None or got is None:
        if exp is None and got is None:
            return None
        if exp is None and got[0] == 'L' and not got[1]:
            return None
        return '%s: expected %r, parsed %r' % (path, _brief(exp), _brief(got))
    if isinstance(exp, list):
        if not isinstance(got, list):
            return '%s: expected a list, parsed %r' % (path, _brief(got))
        # whitespace-only verbatim text vs dropped blank text
        g = [x for x in got if not (x[0] == 'T' and not x[1])]
        e = [x for x in exp if not (x[0] == 'VT' and not x[1].strip())]
        if any(x[0] == 'VT' for x in exp):
            g, e = got, exp
        if len(e) != len(g):
            return '%s: expected %d items %r, parsed %d items %r' % (path, len(e), _brief(e), len(g), _brief(g))
        for i, (a, b) in enumerate(zip(e, g)):
            r = same(a, b, '%s[%d]' % (path, i))
            if r:
                return r
        return None
    k = exp[0]
    if k == 'VT':
        if got[0] == 'T' and got[2] == exp[1]:
            return None
        return '%s: expected verbatim text %r, parsed %r' % (path, exp[1], _brief(got))
    if k == 'T':
        if got[0] == 'T' and got[1] == exp[1]:
            return None
        return '%s: expected text %r, parsed %r' % (path, exp[1], _brief(got))
    if got[0] == 'L' and len(got[1]) == 0 and k == 'G':
        return '%s: expected group, parsed empty list' % path
    if got[0] != k:
        return '%s: expected %r, parsed %r' % (path, _brief(exp), _brief(got))
    if k in ('P',):
        return None
    if k in ('C', 'S'):
        return None if exp[1] == got[1] else '%s: expected %r, parsed %r' % (path, exp, got)
    if k == 'G':
        if (exp[1], exp[2]) != (got[1], got[2]):
            return '%s: expected delimiters %r, parsed %r' % (path, (exp[1], exp[2]), (got[1], got[2]))
        return same(exp[3], got[3], path + '.body')
    if k == 'MATH':
        if tuple(exp[1:4]) != tuple(got[1:4]):
            return '%s: expected math %r, parsed %r' % (path, exp[1:4], got[1:4])
        return same(exp[4], got[4], path + '.math')
    if k == 'L':
        return same(exp[1], got[1], path + '.list')
    if k == 'M':
        if exp[1] != got[1]:
            return '%s: expected macro %r, parsed %r' % (path, exp[1], got[1])
        return _same_args(exp[2], got[2], path + '.\\' + exp[1])
    if k == 'E':
        if exp[1] != got[1]:
            return '%s: expected environment %r, parsed %r' % (path, exp[1], got[1])
        r = None if exp[2] == 'ANYARGS' else _same_args(exp[2], got[2], path + '.env:' + exp[1])
        return r or same(exp[3], got[3], path + '.env:' + exp[1] + '.body')
    return '%s: unknown expected kind %r' % (path, k)


def _same_args(ea, ga, path):
    if len(ea) != len(ga):
        return '%s: expected %d argument slots %r, parsed %d %r' % (path, len(ea), _brief(ea), len(ga), _brief(ga))
    for i, (a, b) in enumerate(zip(ea, ga)):
        if b is not None and b[0] == 'L' and len(b[1]) == 1:
            b = b[1][0]
        r = same(a, b, '%s.arg%d' % (path, i))
        if r:
            return r
    return None


def _brief(x):
    s = repr(x)
    return s if len(s) < 300 else s[:300] + '...'


def to_jsonable(x):
    if isinstance(x, tuple):
        return [to_jsonable(y) for y in x]
    if isinstance(x, list):
        return [to_jsonable(y) for y in x]
    return x


def from_jsonable(x):
    """Inverse of to_jsonable for ASTs: lists whose first element is a kind string are tuples."""
    if isinstance(x, list):
        if x and isinstance(x[0], str) and x[0] in ('T', 'W', 'P', 'G', 'M', 'E', 'MATH', 'C', 'S', 'VERB', 'VENV'):
            return tuple(from_jsonable(y) for y in x)
        return [from_jsonable(y) for y in x]
    return x
