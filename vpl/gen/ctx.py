"""Generated custom context databases declaring macros, environments and specials with every
standard argument signature, built through the public macrospec API."""
from . import doc as D

SLOT_KINDS = ['*', '[', '{', 'm', 'o', 's', 't+', 'r()', 'd<>', 'v', 'v||', 't~', 't&',
              'AnyDelimited', 'AnyDelimitedOptional', 'e{^_}']
ENV_SLOT_KINDS = ['*', '[', '{', 'm', 'o', 's', 'd<>', 'r()', 't+', 't~']


VERB_ENVS = ['vcode']
ENV_NAME_POOL = ['my-env', 'side-note', 'a.b', 'x_y', 'ns:env', 'p/q', 'wow!', 'up^', 'f(1)', 'n[2]', 'two words', 'star*',
                 'v2', '-', 'A-1.b_c:d']


def _verb_body_parser(name):
    from pylatexenc.latexnodes.parsers import LatexVerbatimEnvironmentContentsParser

    def make(token, nodeargd, arg_parsing_state_delta):
        return LatexVerbatimEnvironmentContentsParser(environment_name=name)
    return make


def custom_vocab(rng, unknown_ok=None, n_macros=12, n_envs=5, full_cover_index=None):
    """Draw a vocabulary.  With full_cover_index=i the i-th systematic signature set is used so
    that over a run every slot kind appears in first/middle/last position."""
    if unknown_ok is None:
        unknown_ok = rng.random() < 0.5
    macros = {}
    letters = 'abcdefghijklmnopqrstuvwxyz'
    for i in range(n_macros):
        name = 'mac' + letters[i]
        if full_cover_index is not None and i < 6:
            # systematic: kind k at position p of a 3-slot signature, padded with mandatory '{'
            k = SLOT_KINDS[(full_cover_index + i) % len(SLOT_KINDS)]
            p = (full_cover_index // len(SLOT_KINDS) + i) % 3
            sig = ['{', '{', '{']
            sig[p] = k
            if i % 2:
                sig = sig[:rng.randint(1, 3)]
                if k not in sig:
                    sig[-1] = k
        else:
            sig = [rng.choice(SLOT_KINDS) for _ in range(rng.randint(0, 3))]
        macros[name] = D.M(sig)
    envs = {}
    for i in range(n_envs):
        name = 'env' + letters[i]
        sig = [rng.choice(ENV_SLOT_KINDS) for _ in range(rng.randint(0, 2))]
        envs[name] = D.M(sig)
    # environment names over the whole name alphabet of the tokenizer ([A-Za-z0-9*._ :/!^()[]-])
    for name in rng.sample(ENV_NAME_POOL, 3):
        envs[name] = D.M([rng.choice(ENV_SLOT_KINDS) for _ in range(rng.randint(0, 1))])
    envs['mathenv'] = D.M('', math=True)
    envs['mathenvb'] = D.M('{', math=True)
    # mode changes given as chained deltas (ParsingStateDeltaChained, with a value-preserving second step and a None)
    envs['mathenvc'] = D.M('', math=True, chained=True)
    # ... and as the attribute part of a context-extending delta (which also declares a macro for the body)
    envs['mathenvx'] = D.M('', math=True, extend=True)
    macros['txtc'] = D.M('{', ['text'], chained=True)
    # mode changes made by a spec *subclass* overriding make_arguments_parsing_state_delta() (all arguments of the call)
    macros['txts'] = D.M('{', ['text'], subclass=True)
    macros['mths'] = D.M('{{', ['math', 'math'], subclass=True)
    macros['mthc'] = D.M('{{', ['math', None], chained=True)
    macros['sym'] = D.M('')
    macros['symb'] = D.M('')
    macros['txt'] = D.M('{', ['text'])
    macros['mth'] = D.M('{', ['math'])
    macros['txto'] = D.M('[{', ['text', 'text'])
    # an argument that changes the mode followed by one that does not (it inherits the mode of the call's parent)
    macros['annot'] = D.M('{{', ['text', None])
    macros['mlabel'] = D.M('[{', ['math', None])
    macros['tmix'] = D.M('{{{', [None, 'math', None])
    macros['vv'] = D.M('v')
    macros['tens'] = D.M(['e{^_}'], hidden=True)     # embellishments: used by hand-written documents only
    macros['vvb'] = D.M(['{', 'v'])
    macros['\\'] = D.M(['*', '[nospace'])
    macros['&'] = D.M('')
    macros['%'] = D.M('')
    # text-like / math-like macros declared the pylatexenc-2 way (MacroStandardArgsParser(args_math_mode=[..]))
    macros['ltxt'] = D.M('{', ['text'], legacy=True)
    # (a legacy args_math_mode=True argument inside a formula keeps the formula's recorded delimiter, the pylatexenc-3
    # delta resets it: both satisfy the statement, so no legacy math-mode macro is generated)
    macros['lmix'] = D.M('{{', [None, 'text'], legacy=True)
    macros['aft'] = D.M('')     # carries a state change that lasts after the call (make_after_parsing_state_delta)
    macros['$'] = D.M('')       # escaped dollar: a macro token whose name is a math delimiter character
    macros['#'] = D.M('')
    specials = ['~', '--', '---', '&']
    # declaration order of the specials (a longer sequence may be declared before or after its prefix)
    spec_order = list(specials)
    rng.shuffle(spec_order)
    par = rng.random() < 0.8

    def make_ctx(macros=macros, envs=envs, specials=specials, unknown_ok=unknown_ok, par=par):
        from pylatexenc.macrospec import LatexContextDb, MacroSpec, EnvironmentSpec, SpecialsSpec
        from pylatexenc.latexnodes import (LatexArgumentSpec, ParsingStateDeltaEnterMathMode,
                                           ParsingStateDeltaLeaveMathMode)
        from pylatexenc.latexnodes.parsers import LatexStandardArgumentParser

        def chain(delta):
            from pylatexenc.latexnodes import ParsingStateDeltaChained, ParsingStateDelta
            return ParsingStateDeltaChained([delta, ParsingStateDelta(set_attributes=dict(enable_specials=True)), None])

        def argspecs(d):
            out = []
            for kind, mode in zip(d['sig'], d['mode']):
                parser = kind
                if kind == '[nospace':
                    parser = LatexStandardArgumentParser('[', allow_pre_space=False)
                delta = None
                if mode == 'text':
                    delta = ParsingStateDeltaLeaveMathMode()
                elif mode == 'math':
                    delta = ParsingStateDeltaEnterMathMode()
                if delta is not None and d.get('chained'):
                    delta = chain(delta)
                out.append(LatexArgumentSpec(parser, parsing_state_delta=delta))
            return out
        db = LatexContextDb()
        def after_delta(parsed_node, **kw):
            # a (value-preserving) change of the parsing state that outlives the call, as \\makeatletter-like macros make
            from pylatexenc.latexnodes import ParsingStateDelta
            return ParsingStateDelta(set_attributes=dict(enable_specials=True))
        def legacy_spec(n, d):
            from pylatexenc.macrospec import MacroStandardArgsParser
            amm = [{'text': False, 'math': True, None: None}[m] for m in d['mode']]
            return MacroSpec(n, args_parser=MacroStandardArgsParser(''.join(d['sig']), args_math_mode=amm))
        def subclass_spec(n, d):
            delta_cls = ParsingStateDeltaLeaveMathMode if d['mode'][0] == 'text' else ParsingStateDeltaEnterMathMode

            class _ArgsModeMacroSpec(MacroSpec):
                def make_arguments_parsing_state_delta(self, token, latex_walker):
                    return delta_cls()
            return _ArgsModeMacroSpec(n, [LatexArgumentSpec(k) for k in d['sig']])
        ms = [subclass_spec(n, d) if d.get('subclass') else legacy_spec(n, d) if d.get('legacy') else
              MacroSpec(n, argspecs(d), **({'make_after_parsing_state_delta': after_delta} if n == 'aft' else {}))
              for n, d in sorted(macros.items())]
        es = []
        for n, d in sorted(envs.items()):
            kw = {}
            if d.get('math'):
                kw['body_parsing_state_delta'] = ParsingStateDeltaEnterMathMode()
                if d.get('chained'):
                    kw['body_parsing_state_delta'] = chain(kw['body_parsing_state_delta'])
                if d.get('extend'):
                    from pylatexenc.macrospec import ParsingStateDeltaExtendLatexContextDb
                    kw['body_parsing_state_delta'] = ParsingStateDeltaExtendLatexContextDb(
                        extend_latex_context=dict(macros=[MacroSpec('tagx', '{')]),
                        set_attributes=dict(in_math_mode=True, math_mode_delimiter=None))
            es.append(EnvironmentSpec(n, argspecs(d), **kw))
        for n in VERB_ENVS:
            es.append(EnvironmentSpec(n, '', make_body_parser=_verb_body_parser(n)))
        ss = [SpecialsSpec(c) for c in spec_order if c in specials] + [SpecialsSpec(c) for c in specials if c not in spec_order]
        if par:
            ss.append(SpecialsSpec('\n\n'))
        db.add_context_category('custom', macros=ms, environments=es, specials=ss)
        if unknown_ok:
            db.set_unknown_macro_spec(MacroSpec(''))
            db.set_unknown_environment_spec(EnvironmentSpec(''))
        return db

    return D.Vocab(macros, envs, specials=specials, math_specials=['~', '&'], unknown_ok=unknown_ok,
                   verb=False, par_is_specials=par, make_ctx=make_ctx, name='custom', verb_envs=VERB_ENVS)
