"""Bounded-exhaustive strings and random token soups."""
import itertools

# the LaTeX-significant alphabet (one representative per category code class)
ALPHABET = ['a', ' ', '\n', '{', '}', '[', ']', '$', '\\', '%', '&', '~']


def all_strings(alphabet, max_len, min_len=0):
    for n in range(min_len, max_len + 1):
        for t in itertools.product(alphabet, repeat=n):
            yield ''.join(t)


def count_strings(alphabet, max_len, min_len=0):
    return sum(len(alphabet) ** n for n in range(min_len, max_len + 1))


def slice_of(iterable, k, n):
    """Every n-th element starting at k (for sharding an enumeration)."""
    return itertools.islice(iterable, k, None, n)


_DBNAMES = {}


def db_names():
    """Macro / environment / specials names of the default walker and text databases,
    obtained through the public iteration API."""
    if _DBNAMES:
        return _DBNAMES
    from pylatexenc.latexwalker import get_default_latex_context_db as wdb
    from pylatexenc.latex2text import get_default_latex_context_db as tdb
    macros, envs, specials = set(), set(), set()
    wm, we = set(), set()
    for db, isw in ((wdb(), True), (tdb(), False)):
        for sp in db.iter_macro_specs():
            macros.add(sp.macroname)
            if isw:
                wm.add(sp.macroname)
        for sp in db.iter_environment_specs():
            envs.add(sp.environmentname)
            if isw:
                we.add(sp.environmentname)
        for sp in db.iter_specials_specs():
            specials.add(sp.specials_chars)
    _DBNAMES.update(macros=sorted(macros), environments=sorted(envs), specials=sorted(specials),
                    walker_macros=sorted(wm), walker_environments=sorted(we))
    return _DBNAMES


BASIC_ATOMS = [
    'a', 'b', 'x', '1', ' ', '  ', '\n', '\n\n', ' \n ', '{', '}', '[', ']', '(', ')', '<', '>',
    '$', '$$', '\\(', '\\)', '\\[', '\\]', '\\', '\\\\', '%', '%c\n', '% x', '&', '~', '#', '^', '_',
    '*', '+', '|', '!', '?', '`', "'", '``', "''", '--', '---', ',', '=', '"', '-',
    '\\begin', '\\end', '\\begin{', '\\end{', '\\begin{x}', '\\end{x}', '\\begin{}', '\\end{}',
    '\\begin {x}', '\\begin{a b}', '\\verb', '\\verb|', '\\verb|x|', '\\verb*|x y|',
    '\\begin{verbatim}', '\\end{verbatim}', '\\begin{lstlisting}', '\\end{lstlisting}',
    '\\item', '\\item[', '{}', '[]', '$x$', '\\[x\\]', 'é', 'ß', '́', '\U0001d7d8', '\x00', '\t',
    '\r', '\r\n', '\x7f', '\\ ', '\\%', '\\{', '\\}', '\\$', '\\&', '\\#', '\\_', '\\,',
]


def soup_atoms(with_db=True):
    atoms = list(BASIC_ATOMS)
    if with_db:
        n = db_names()
        atoms += ['\\' + m for m in n['macros']]
        atoms += ['\\begin{%s}' % e for e in n['environments']]
        atoms += ['\\end{%s}' % e for e in n['environments']]
        atoms += list(n['specials'])
    return atoms


def soup(rng, atoms, basic=BASIC_ATOMS, max_atoms=8, p_basic=0.6):
    k = rng.randint(1, max_atoms)
    out = []
    for _ in range(k):
        if rng.random() < p_basic:
            out.append(rng.choice(basic))
        else:
            out.append(rng.choice(atoms))
    return ''.join(out)
