"""C20 - positions map to the right line and column, also in error reports.

Events that refute it: a (lineno, colno) returned for a position that does not
satisfy  pos == start_of_line(lineno) + colno - offset  with the position lying
on that line; a strict parse error whose lineno/colno is not the mapping of its
own pos.

Oracle: a reference model written from the documentation (lines are separated
by '\\n', first line has number line_number_offset).  For the first line the
two readings of the column offsets (first_line_column_offset *instead of* or
*in addition to* column_offset) are both accepted, but one run must observe a
single reading.
"""
import itertools
from ..util import walker, parse, LatexWalkerParseError
from ..gen import soup
from ..shard import rng_for

PROPERTY = 'C20'
LEVEL = 'exploration'
RULE = ('part A: every string up to length L over {a, newline, carriage return, space} x every '
        'position 0..len x offset settings (exhaustive), plus random long multi-line strings; '
        'part B: every strict-mode parse error raised on all strings up to length L over the '
        'LaTeX-significant alphabet and on multi-line fault documents, with offsets. '
        'A case is non-trivial when the string has >= 2 lines; distinct = distinct (string, offsets).')
EXHAUSTIVE = {'quick': False, 'thorough': False}
ASSUMPTIONS = ["lines are separated by '\\n' only; '\\r' is an ordinary character",
               'both readings of first_line_column_offset (instead of / in addition to column_offset) '
               'are accepted on the first line, but a run must observe one reading consistently']

ALPHA = ['a', '\n', '\r', ' ']
OFFSETS = [
    {},
    {'line_number_offset': 0},
    {'line_number_offset': 7, 'first_line_column_offset': 3},
    {'column_offset': 2},
    {'line_number_offset': -2, 'first_line_column_offset': 5, 'column_offset': 1},
    {'first_line_column_offset': 4, 'column_offset': 4},
]


def plan(tier, seed):
    L = 8 if tier == 'quick' else 10
    n = 8 if tier == 'quick' else 16
    shards = [{'kind': 'positions', 'L': L, 'k': k, 'n': n, 'name': 'pos%d' % k} for k in range(n)]
    Lerr = 4 if tier == 'quick' else 5
    m = 4 if tier == 'quick' else 12
    shards += [{'kind': 'errors', 'L': Lerr, 'k': k, 'n': m, 'name': 'err%d' % k,
                'nrand': 1500 if tier == 'quick' else 10000} for k in range(m)]
    return shards


def floors(tier):
    return {'evaluations': 50000, 'distinct_nontrivial': 2000, 'mapping_checked': 100000,
            'error_positions_checked': 1000, 'errors_on_later_lines': 100, 'out_of_order_lookups': 100000, 'caller_located_errors_attached_to_nodes': 20000, 'parses_after_earlier_lookup': 500, 'open_context_positions_checked': 2000, 'open_contexts_two_lines_above_error': 200,
            'histkeys:error_located_via': 9, 'hist:error_located_via:get_latex_braced_group': 50,
            'hist:error_located_via:expression_parser': 50}


def setup(rec):
    pass


def line_starts(s):
    starts = [0]
    for i, c in enumerate(s):
        if c == '\n':
            starts.append(i + 1)
    return starts


def check_mapping(s, pos, got, offs):
    """Return (error message or None, reading) for one (pos -> got) observation."""
    try:
        lineno, colno = got
    except Exception:
        return 'not a (lineno, colno) pair: %r' % (got,), None
    if not isinstance(lineno, int) or not isinstance(colno, int):
        return 'non-integer line/column %r' % (got,), None
    lno = offs.get('line_number_offset', 1)
    flco = offs.get('first_line_column_offset', 0)
    co = offs.get('column_offset', 0)
    starts = line_starts(s)
    idx = lineno - lno
    if idx < 0 or idx >= len(starts):
        return 'line %r does not exist (input has %d lines, first is numbered %d)' % (
            lineno, len(starts), lno), None
    start = starts[idx]
    end = starts[idx + 1] - 1 if idx + 1 < len(starts) else len(s)   # position of the '\n' / end
    if not (start <= pos <= end):
        return 'position %d is not on reported line %d (line spans %d..%d)' % (pos, lineno, start, end), None
    if idx > 0:
        if pos != start + colno - co:
            return 'pos %d != line start %d + column %d - column_offset %d' % (pos, start, colno, co), None
        return None, None
    # first line: two admissible readings
    if flco == 0 or co == 0:
        # unambiguous iff the readings agree
        if co == 0:
            ok = (pos == start + colno - flco)
            return (None if ok else 'pos %d != line start %d + column %d - first_line_column_offset %d'
                    % (pos, start, colno, flco)), None
    a = (pos == start + colno - flco)
    b = (pos == start + colno - flco - co)
    if a and not b:
        return None, 'instead'
    if b and not a:
        return None, 'in-addition'
    if a and b:
        return None, None
    return 'pos %d matches neither reading of the first-line column offset (col %d, flco %d, co %d)' % (
        pos, colno, flco, co), None


READINGS = set()


def check_case(case, rec):
    s = case['s']
    offs = case.get('offs', {})
    kind = case['kind']
    if kind == 'positions':
        lw = walker(s, tolerant=False, **offs)
        for pos in range(len(s) + 1):
            got = lw.pos_to_lineno_colno(pos)
            err, reading = check_mapping(s, pos, got, offs)
            rec.monitor('mapping_checked')
            if reading:
                READINGS.add(reading)
                rec.hist('first_line_reading', reading)
            if err:
                rec.violation(case, 'pos_to_lineno_colno(%d) = %r on %r offsets %r: %s' % (pos, got, s, offs, err),
                              mech='mapping')
                return
            d = lw.pos_to_lineno_colno(pos, as_dict=True)
            if not isinstance(d, dict) or (d.get('lineno'), d.get('colno')) != tuple(got):
                rec.violation(case, 'as_dict result %r differs from tuple result %r' % (d, got), mech='as_dict')
                return
        # the calculator class used directly (same mapping, its own defaults for missing offsets)
        from pylatexenc._util import LineNumbersCalculator
        calc = LineNumbersCalculator(s, **offs)
        for pos in range(len(s) + 1):
            got = calc.pos_to_lineno_colno(pos)
            rec.monitor('mapping_checked')
            err, reading = check_mapping(s, pos, got, offs)
            if err:
                rec.violation(case, 'LineNumbersCalculator.pos_to_lineno_colno(%d) = %r on %r offsets %r: %s'
                              % (pos, got, s, offs, err), mech='calculator')
                return
        # the mapping is a function of the position alone: the same walker / calculator asked again in descending,
        # strided and shuffled order (lookups jumping several lines back and forth)
        import random as _random
        order_rng = _random.Random(len(s) * 7919 + sum(map(ord, s)))
        n = len(s) + 1
        shuffled = list(range(n))
        order_rng.shuffle(shuffled)
        orders = [('descending', list(range(n - 1, -1, -1))), ('ends', [n - 1, 0, n - 1, n // 2, 0]),
                  ('shuffled', shuffled)]
        for oname, order in orders:
            for obj, oname2 in ((lw, 'LatexWalker'), (calc, 'LineNumbersCalculator')):
                for pos in order:
                    got = obj.pos_to_lineno_colno(pos)
                    rec.monitor('out_of_order_lookups')
                    err, reading = check_mapping(s, pos, got, offs)
                    if err:
                        rec.violation(case, '%s.pos_to_lineno_colno(%d) = %r in a %s sequence of lookups on %r offsets %r: %s'
                                      % (oname2, pos, got, oname, s, offs, err), mech='lookup-order')
                        return
        if len(READINGS) > 1:
            rec.violation(case, 'both readings of the first-line column offset observed in one run', mech='reading')
        # an error object located by the caller and then attached to a node (the public helper of the located-error
        # classes): with or without a position of its own, its line/column -- if it reports any -- are those of its
        # position, and the node is listed as an open construct at the node's own position
        if '\n' in s and len(s) >= 3:
            from pylatexenc.latexnodes import nodes as _N
            lw2 = walker(s, tolerant=True, **offs)
            npos = order_rng.randrange(len(s))
            node = _N.LatexCharsNode(parsing_state=lw2.make_parsing_state(), latex_walker=lw2, chars=s[npos:npos + 1],
                                     pos=npos, pos_end=npos + 1)
            for own in (None, order_rng.randrange(len(s) + 1)):
                e = LatexWalkerParseError(msg='located by the caller', s=s, pos=own)
                e.set_pos_or_add_open_context_from_node(node)
                rec.monitor('caller_located_errors_attached_to_nodes')
                want_pos = npos if own is None else own
                if e.pos != want_pos:
                    rec.violation(case, 'error with position %r attached to a node at %d now has position %r' % (own, npos, e.pos),
                                  mech='attach-pos')
                    return
                if e.lineno is not None or e.colno is not None:
                    err, reading = check_mapping(s, e.pos, (e.lineno, e.colno), offs)
                    if err:
                        rec.violation(case, 'error at pos %d (own position %r) attached to a node at %d reports line/col %r '
                                      'on %r offsets %r: %s' % (e.pos, own, npos, (e.lineno, e.colno), s, offs, err),
                                      mech='attach-mapping')
                        return
                for octx in (e.open_contexts or []):
                    what, opos, olineno, ocolno = octx
                    err, reading = check_mapping(s, opos, (olineno, ocolno), offs)
                    if err or opos != npos:
                        rec.violation(case, 'node at %d listed as open construct at %r with line/col %r on %r: %s' % (
                            npos, opos, (olineno, ocolno), s, err), mech='attach-context')
                        return
    else:
        try:
            lw = walker(s, tolerant=False, **offs)
            entry = case.get('entry', 'general')
            rec.hist('error_entry_point', entry)
            if case.get('prelookup') is not None:
                # the caller has already used the walker to locate some other position
                rec.monitor('parses_after_earlier_lookup')
                lw.pos_to_lineno_colno(min(len(s), int(case['prelookup'] * len(s))))
            ENTRY[entry](lw, case.get('start', 0))
            rec.hist('error_outcome', 'parsed')
            return
        except LatexWalkerParseError as e:
            rec.hist('error_outcome', 'LatexWalkerParseError')
            pos = getattr(e, 'pos', None)
            if not isinstance(pos, int) or not (0 <= pos <= len(s)):
                rec.violation(case, 'parse error on %r has position %r outside the input: %s' % (s, pos, e.msg),
                              mech='errpos')
                return
            got = (e.lineno, e.colno)
            err, reading = check_mapping(s, pos, got, offs)
            rec.monitor('error_positions_checked')
            rec.hist('error_located_via', case.get('entry', 'general'))
            if s.count('\n', 0, pos):
                rec.monitor('errors_on_later_lines')
            if reading:
                READINGS.add(reading)
            if err:
                rec.violation(case, 'parse error at pos %d reports line/col %r on %r offsets %r: %s [%s]' % (
                    pos, got, s, offs, err, e.msg), mech='errmapping')
                return
            want = lw.pos_to_lineno_colno(pos)
            if tuple(want) != got:
                rec.violation(case, 'parse error at pos %d reports %r but pos_to_lineno_colno gives %r' % (
                    pos, got, want), mech='errmapping2')
                return
            # the positions of the constructs that were open when the error occurred, listed in the error report
            for octx in (e.open_contexts or []):
                try:
                    what, opos, olineno, ocolno = octx
                except Exception:
                    continue
                if not isinstance(opos, int) or not (0 <= opos <= len(s)):
                    continue
                rec.monitor('open_context_positions_checked')
                if s.count('\n', opos, pos) >= 2:
                    rec.monitor('open_contexts_two_lines_above_error')
                err, reading = check_mapping(s, opos, (olineno, ocolno), offs)
                if err:
                    rec.violation(case, 'parse error at pos %d lists open construct %r at pos %d with line/col %r on %r '
                                  'offsets %r: %s' % (pos, what, opos, (olineno, ocolno), s, offs, err), mech='open-context')
                    return
        except Exception as e:
            # foreign exception types are C05's business; count them here
            rec.hist('error_outcome', 'other:' + type(e).__name__)


def _entries():
    from pylatexenc.latexnodes import parsers as P
    import warnings
    warnings.simplefilter('ignore')
    return {
        'general': lambda lw, p: lw.parse_content(P.LatexGeneralNodesParser()),
        'get_latex_nodes': lambda lw, p: lw.get_latex_nodes(pos=p),
        'get_latex_braced_group': lambda lw, p: lw.get_latex_braced_group(p),
        'get_latex_braced_group[': lambda lw, p: lw.get_latex_braced_group(p, brace_type='['),
        'get_latex_expression': lambda lw, p: lw.get_latex_expression(p),
        'get_latex_maybe_optional_arg': lambda lw, p: lw.get_latex_maybe_optional_arg(p),
        'get_latex_environment': lambda lw, p: lw.get_latex_environment(p),
        'delimited_group_parser': lambda lw, p: lw.parse_content(
            P.LatexDelimitedGroupParser(delimiters=('{', '}')), token_reader=lw.make_token_reader(pos=p)),
        'expression_parser': lambda lw, p: lw.parse_content(
            P.LatexExpressionParser(), token_reader=lw.make_token_reader(pos=p)),
        'math_parser': lambda lw, p: lw.parse_content(
            P.LatexMathParser(math_mode_delimiters=None), token_reader=lw.make_token_reader(pos=p)),
    }


ENTRY = _entries()
OPENERS = {'get_latex_braced_group': '{', 'get_latex_braced_group[': '[', 'get_latex_maybe_optional_arg': '[',
           'delimited_group_parser': '{', 'get_latex_expression': '{', 'expression_parser': '{', 'math_parser': '$',
           'get_latex_environment': '\\begin{center}'}
FAULTS = ['}', '{', '$', '\\end{x}', '\\begin{x}', '\\)', '\\]', '\\(', '\\[', '\\textbf$', '\\verb',
          # token-level errors (raised by the token reader itself)
          '\\begin ', '\\end ', '\\begin{', '\\end{x', '\\begin*']
LINES = ['abc', '', '  x', '\\textbf{a}', '$x$', '{y}', '% c', '\\begin{itemize}\\item z\\end{itemize}', 'a\rb']


def run_shard(desc, rec):
    rng = rng_for(desc)
    if desc['kind'] == 'positions':
        gen = soup.slice_of(soup.all_strings(ALPHA, desc['L']), desc['k'], desc['n'])
        i = 0
        for s in gen:
            offs = OFFSETS[(i + desc['k']) % len(OFFSETS)]
            i += 1
            case = {'kind': 'positions', 's': s, 'offs': offs}
            rec.case()
            if '\n' in s:
                rec.nontrivial((s, sorted(offs.items())))
            if i % 997 == 0:
                rec.sample({'s': s, 'offs': offs, 'maps': [list(walker(s, **offs).pos_to_lineno_colno(p))
                                                           for p in range(len(s) + 1)]})
            check_case(case, rec)
        # long random multi-line strings, all offsets
        for j in range(200):
            s = ''.join(rng.choice(['a', 'b', ' ', '\n', '\n', '\r', '\r\n', 'xyz']) for _ in range(rng.randint(10, 80)))
            for offs in OFFSETS:
                rec.case()
                rec.nontrivial((s, sorted(offs.items())))
                check_case({'kind': 'positions', 's': s, 'offs': offs}, rec)
    else:
        gen = soup.slice_of(soup.all_strings(soup.ALPHABET, desc['L']), desc['k'], desc['n'])
        i = 0
        for s in gen:
            i += 1
            offs = OFFSETS[i % len(OFFSETS)]
            rec.case()
            if '\n' in s:
                rec.nontrivial((s, sorted(offs.items())))
            check_case({'kind': 'error', 's': s, 'offs': offs}, rec)
        for j in range(desc['nrand']):
            lines = [rng.choice(LINES) for _ in range(rng.randint(1, 6))]
            k = rng.randrange(len(lines))
            cut = rng.randint(0, len(lines[k]))
            lines[k] = lines[k][:cut] + rng.choice(FAULTS) + lines[k][cut:]
            s = '\n'.join(lines)
            offs = rng.choice(OFFSETS)
            rec.case()
            rec.nontrivial((s, sorted(offs.items())))
            case = {'kind': 'error', 's': s, 'offs': offs}
            if j % 3 == 0:
                case['prelookup'] = rng.choice([1.0, 1.0, 0.5, 0.0])
            if j % 97 == 0:
                rec.sample(case)
            check_case(case, rec)
            # the same faulty text read through the other entry points (whose outermost parser is not the general
            # nodes parser): inside the construct each of them reads, after some leading lines
            entry = sorted(ENTRY)[j % len(ENTRY)]
            lead = ''.join(rng.choice(['', 'ab\n', '\n', 'x \n\n']) for _ in range(2))
            body = OPENERS.get(entry, '') + s + rng.choice(['', '', '}', ']', '$', '\\', ' \\'])
            if j % 5 == 0:
                # the faulty token is the first thing the entry point reads
                body = rng.choice(['\\begin x', '\\end', '\\', '\\begin{', '{\\begin y}', '{a\\'])
            rec.case()
            case = {'kind': 'error', 's': lead + body, 'offs': offs, 'entry': entry, 'start': len(lead)}
            rec.nontrivial((case['s'], entry))
            check_case(case, rec)

LEVEL_TEXT = ('Exploration with a reference model: every position of every string up to length 8 (quick) / 10 '
              '(thorough) over {letter, newline, carriage return, space} under six offset settings is mapped by '
              'the real LatexWalker.pos_to_lineno_colno and checked against the defining equation, and every '
              'strict-mode parse error raised on ~20k (quick) generated faulty inputs is checked to report the '
              'line/column of its own position. Bounded-exhaustive plus random; the right level because the '
              'mapping is a small pure function whose whole input space up to the bound can be enumerated.')
LEVEL_NOTE = ("Trusted: the 20-line reference model in vpl/checks/c20.py (lines split at '\\n'); the real code is "
              "imported from /repo's working tree in fresh processes. Both readings of the first-line column "
              "offset are accepted (consistently).")
TECHNIQUE = 'runtime monitoring: reference-model oracle over bounded-exhaustive positions and observed parse errors'
