"""C03 - latex2text renders the core sublanguage by its documented rules, compositionally.

Refuting events: latex_to_text(document) differs from the reference renderer (vpl/model/l2t.py, written
from the documented rules, working on the generator's abstract document and never on parsed nodes);
converting two self-contained blocks joined by a paragraph break or a space differs from joining their
separate conversions.
"""
from ..shard import rng_for
from ..util import converter
from ..gen import doc as D
from ..model import l2t as L
from ..rec import Recorder
from pylatexenc.latex2text import LatexNodes2Text

PROPERTY = 'C03'
LEVEL = 'exploration'
RULE = ('random derivations of the core-sublanguage grammar (plain text, groups, 5 font macros, 60 symbol macros, 7 control '
        'symbols, 11 accents over letters and dotless i, fractions, roots, specials ~ -- --- `` \'\' &, comments, paragraph '
        'breaks, list / unknown environments with \\item, inline and display math with the four delimiter kinds; explicit '
        'whitespace at every position) x strict_latex_spaces in {False, "macros", "based-on-source", "default", '
        '"except-in-equations", True} x math_mode in {text, with-delimiters, verbatim, remove} x keep_braced_groups; '
        'plus pairs of self-contained blocks joined by a paragraph break or a space. Non-trivial = document with >= 3 '
        'construct kinds; distinct = distinct (document, options). Coverage = (policy, left kind, right kind, in/out '
        'of equation) cells where a whitespace unit was decided.')
EXHAUSTIVE = {'quick': False, 'thorough': False}
ASSUMPTIONS = ['fill_text layout is not modelled (C07 covers its totality)',
               'with keep_braced_groups an \\item with optional argument is not compared (bracket keeping is undocumented)',
               'symbols outside the 60-entry table of vpl/model/l2t.py are not generated']

POLICIES = [False, 'macros', 'based-on-source', 'default', 'except-in-equations', True,
            # the documented dictionary form
            {'between-macro-and-chars': True}, {'between-latex-constructs': True, 'after-comment': True},
            {'between-macro-and-chars': True, 'between-latex-constructs': False, 'after-comment': True, 'in-equations': True},
            {'after-comment': True, 'in-equations': False},
            {'between-latex-constructs': True, 'in-equations': {'between-macro-and-chars': True}},
            {'between-macro-and-chars': True, 'between-latex-constructs': True, 'in-equations': 'except-in-equations'},
            'on', 'off']
MATH_MODES = ['text', 'with-delimiters', 'verbatim', 'remove']
PROFILE = {'unicode_text': 0.05, 'bracket_text': 0.1, 'verb': 0, 'unknown': 0, 'env': 0.7, 'arg_comment': 0.0, 'arg_ws': 0.2, 'math': 1.5, 'comment': 0.7,
           'specials': 1.0, 'par': 0.5}
_V = []


def vocab():
    if not _V:
        _V.append(D.core_vocab())
    return _V[0]


def plan(tier, seed):
    if tier == 'quick':
        return [{'kind': 'model', 'count': 450, 'depth': 3, 'name': 'model%d' % k} for k in range(10)] + \
               [{'kind': 'compose', 'count': 500, 'name': 'comp%d' % k} for k in range(4)] + \
               [{'kind': 'special', 'name': 'special'}]
    return [{'kind': 'model', 'count': 6000, 'depth': 3 + k % 3, 'name': 'model%d' % k} for k in range(24)] + \
           [{'kind': 'compose', 'count': 8000, 'name': 'comp%d' % k} for k in range(8)] + \
           [{'kind': 'special', 'name': 'special'}]


def floors(tier):
    return {'evaluations': 30000, 'distinct_nontrivial': 15000, 'model_comparisons': 30000,
            'compositions_checked': 3000, 'histkeys:ws_cell': 150, 'histkeys:construct': 9, 'histkeys:options': 30}


def setup(rec):
    pass


class RendererV(L.Renderer):
    """Adds math_mode='verbatim' (formula rendered from its own source) to the reference renderer."""
    def formula(self, it, P):
        if self.math_mode == 'verbatim':
            src, _ = D.render([it], self.vocab)
            if it[1] in ('$$', '\\['):
                return '\n' + src + '\n'
            return src
        return L.Renderer.formula(self, it, P)


KIND = {'T': 'text', 'G': 'group', 'M': 'macro', 'E': 'env', 'MATH': 'math', 'C': 'comment', 'S': 'specials',
        'P': 'par', 'W': 'ws'}


def ws_cells(items, policy_name, ineq, rec, vocabv):
    """Coverage: which (policy, left kind, right kind, in/out of equation) whitespace decisions were exercised."""
    for i, it in enumerate(items):
        k = it[0]
        if k == 'W':
            l = KIND[items[i - 1][0]] if i > 0 else '^'
            if i > 0 and items[i - 1][0] == 'M' and all(a is None for a in items[i - 1][2]):
                l = 'bare-macro'
            r = KIND[items[i + 1][0]] if i + 1 < len(items) else '$'
            rec.hist('ws_cell', '%s|%s|%s|%s' % (policy_name, l, r, 'eq' if ineq else 'text'))
        elif k == 'G':
            ws_cells(it[1], policy_name, ineq, rec, vocabv)
        elif k == 'MATH':
            ws_cells(it[3], policy_name, True, rec, vocabv)
        elif k == 'E':
            ws_cells(it[3], policy_name, ineq, rec, vocabv)
        elif k == 'M':
            for a in it[2]:
                if a is not None and a[1] == 'grp':
                    ws_cells(a[4], policy_name, ineq, rec, vocabv)


def kinds_of(items, acc):
    for it in items:
        acc.add(it[0])
        if it[0] == 'G':
            kinds_of(it[1], acc)
        elif it[0] == 'MATH':
            kinds_of(it[3], acc)
        elif it[0] == 'E':
            kinds_of(it[3], acc)
        elif it[0] == 'M':
            for a in it[2]:
                if a is not None and a[1] == 'grp':
                    kinds_of(a[4], acc)
    return acc


def has_item_optarg(items):
    for it in items:
        if it[0] == 'M' and it[1] == 'item' and it[2] and it[2][0] is not None:
            return True
        subs = []
        if it[0] == 'G':
            subs.append(it[1])
        elif it[0] == 'MATH':
            subs.append(it[3])
        elif it[0] == 'E':
            subs.append(it[3])
        elif it[0] == 'M':
            subs += [a[4] for a in it[2] if a is not None and a[1] == 'grp']
        if any(has_item_optarg(s) for s in subs):
            return True
    return False


def check_case(case, rec):
    v = vocab()
    if case['what'] == 'model':
        ast = D.from_jsonable(case['ast'])
        try:
            src, _ = D.render(ast, v)
        except D.Redraw:
            return
        opts = case['opts']
        if opts['keep_braced_groups'] and has_item_optarg(ast):
            rec.monitor('skipped_item_optarg_with_kbg')
            return
        try:
            want = RendererV(v, strict_latex_spaces=opts['strict_latex_spaces'], math_mode=opts['math_mode'],
                             keep_braced_groups=opts['keep_braced_groups'],
                             keep_braced_groups_minlen=opts.get('keep_braced_groups_minlen', 2)).render(ast)
        except L.Unsupported as e:
            rec.monitor('outside_model')
            return
        rec.monitor('model_comparisons')
        rec.hist('options', '%s/%s/kb%d' % (opts['strict_latex_spaces'], opts['math_mode'], int(opts['keep_braced_groups'])))
        try:
            got = converter(opts, src, rec).latex_to_text(src, tolerant_parsing=False)
        except Exception as e:
            rec.violation(dict(case, source=src), 'latex_to_text raised %s: %s | source %r options %r'
                          % (type(e).__name__, str(e)[:150], src, opts), mech='raises')
            return
        if got != want:
            rec.violation(dict(case, source=src), 'latex_to_text gives %r, the documented rules give %r | source %r options %r'
                          % (got, want, src, opts), mech='model-diff')
    else:
        a, b, joiner, opts = case['a'], case['b'], case['joiner'], case['opts']
        l2t = lambda s: converter(opts, s, rec).latex_to_text(s, tolerant_parsing=False)
        try:
            whole = l2t(a + joiner + b)
            # a paragraph break renders as two newlines whatever blank material it spans
            parts = l2t(a) + ('\n\n' if joiner.count('\n') >= 2 else joiner) + l2t(b)
        except Exception as e:
            rec.violation(case, 'latex_to_text raised %s on composed blocks' % type(e).__name__, mech='raises')
            return
        rec.monitor('compositions_checked')
        if whole != parts:
            rec.violation(case, 'converting %r gives %r but joining the separate conversions gives %r (options %r)'
                          % (a + joiner + b, whole, parts, opts), mech='not-compositional')


def shrink(v):
    """Drop top-level items of the abstract document while the disagreement persists."""
    case = v['case']
    if case.get('what') != 'model':
        return v
    ast = list(D.from_jsonable(case['ast']))
    changed = True
    while changed and len(ast) > 1:
        changed = False
        for i in range(len(ast)):
            a2 = ast[:i] + ast[i + 1:]
            ok = True
            for x, y in zip(a2, a2[1:]):
                if x[0] in ('W', 'P') and y[0] in ('W', 'P'):
                    ok = False
                if x[0] == 'C' and y[0] in ('W',):
                    ok = False
                if x[0] == 'T' and y[0] == 'T':
                    ok = False
            if not ok:
                continue
            r = Recorder()
            check_case(dict(case, ast=D.to_jsonable(a2)), r)
            if r.n_violations:
                ast = a2
                changed = True
                break
    r = Recorder()
    check_case(dict(case, ast=D.to_jsonable(ast)), r)
    return r.violations[0] if r.violations else v


def self_contained(ast):
    if not ast:
        return False
    first, last = ast[0], ast[-1]
    if first[0] in ('W', 'P', 'C') or last[0] in ('W', 'P', 'C'):
        return False
    if last[0] == 'M' and (all(a is None for a in last[2]) or
                           [a for a in last[2] if a is not None][-1][1] == 'tokm'):
        return False
    if last[0] == 'M' and last[1] == 'item':
        return False
    return True


SPECIAL = [
    'a {b} c', '{a} {b}', '\\alpha b', '\\alpha  b \\beta', '\\textbf{a} \\textbf{b}', 'a %c\n b', 'a%c\n\nb', '$a$ $b$',
    '\\[ x \\] y', 'a -- b --- c', "``q''", 'x~y', '\\begin{itemize}\\item a \\item[b] c\\end{itemize}', "\\'e\\'{a}\\^\\i",
    '$\\frac{a}{b} \\sqrt{x} \\alpha \\beta$', 'a & b', '\\& \\% \\$ \\# \\_ \\{ \\}', '\\textbf a', 'a\n\n\n b', '{ \\alpha }',
]


def run_shard(desc, rec):
    rng = rng_for(desc)
    v = vocab()
    combos = [(p, m, kb) for p in POLICIES for m in MATH_MODES for kb in (False, True)]
    rng.shuffle(combos)
    ci = 0
    if desc['kind'] == 'model':
        for i in range(desc['count']):
            ast, src, bounds, redraws = D.gen_doc(rng, v, max_depth=desc['depth'], profile=PROFILE)
            ks = kinds_of(ast, set())
            for k in ks:
                rec.hist('construct', KIND.get(k, k))
            for _ in range(8):
                p, m, kb = combos[ci % len(combos)]
                ci += 1
                opts = {'strict_latex_spaces': p, 'math_mode': m, 'keep_braced_groups': kb}
                if kb and ci % 3 == 0:
                    opts['keep_braced_groups_minlen'] = [0, 1, 4, 3][(ci // 3) % 4]
                    rec.monitor('explicit_braced_group_minlen')
                rec.case()
                if len(ks - {'W'}) >= 3:
                    rec.nontrivial((src, str(p), m, kb))
                ws_cells(ast, str(p), False, rec, v)
                if (i * 8 + ci) % 1201 == 0:
                    rec.sample({'source': src, 'options': opts})
                check_case({'what': 'model', 'ast': D.to_jsonable(ast), 'opts': opts}, rec)
    elif desc['kind'] == 'compose':
        blocks = []
        while len(blocks) < 60:
            ast, src, bounds, redraws = D.gen_doc(rng, v, max_depth=3, profile=dict(PROFILE, par=0))
            if self_contained(ast) and src == src.strip() and src:
                blocks.append((ast, src))
        for i in range(desc['count']):
            (aa, a), (ba, b) = rng.choice(blocks), rng.choice(blocks)
            joiner = rng.choice(['\n\n', '\n\n', ' ', '\n \n'])
            if joiner == ' ' and not (aa[-1][0] == 'T' and ba[0][0] == 'T'):
                joiner = '\n\n'
            if joiner != ' ' and a.endswith('$') and b.startswith('$'):
                pass
            p, m, kb = combos[ci % len(combos)]
            ci += 1
            rec.case()
            rec.nontrivial((a, b, joiner, str(p), m, kb))
            check_case({'what': 'compose', 'a': a, 'b': b, 'joiner': joiner,
                        'opts': {'strict_latex_spaces': p, 'math_mode': m, 'keep_braced_groups': kb}}, rec)
    else:
        # fixed documents through the parser-independent route: compositionality of hand-written blocks
        for a in SPECIAL:
            for b in SPECIAL[:8]:
                for (p, m, kb) in combos[:12]:
                    rec.case()
                    check_case({'what': 'compose', 'a': a, 'b': b, 'joiner': '\n\n',
                                'opts': {'strict_latex_spaces': p, 'math_mode': m, 'keep_braced_groups': kb}}, rec)


LEVEL_TEXT = ('Exploration with an executable reference model: a 200-line renderer written from the documented conversion rules '
              '(and validated rule by rule against the repaired tree) is applied to the abstract document the generator wrote, '
              'and compared character for character with the real latex_to_text of the rendered source under every '
              'whitespace policy, math mode and keep_braced_groups; compositionality is checked directly on the real '
              'converter for self-contained blocks. The evidence reports which (policy, left kind, right kind, equation) '
              'whitespace cells were actually decided.')
LEVEL_NOTE = ('Trusted: vpl/model/l2t.py and its tables (hand-written from standard LaTeX symbol names), the document grammar. '
              'Constructs outside the model (fill_text, tabular material, symbols outside the table) are not generated.')
TECHNIQUE = 'runtime monitoring: reference-renderer monitor over grammar-generated core-sublanguage documents x policies, plus direct compositionality oracle on the real latex2text'
