"""C04 - encoder output equals the documented rule semantics.

Refuting events: the sequence of chunks appended by UnicodeToLatexEncoder differs from the
reference model (rule order, first match, consumed length, per-rule protection over global
protection, pass-through, unknown-character policy, non_ascii_only); an exception other than the
ValueError of policy 'fail'; enc(a+b) != enc(a)+enc(b) with the per-character default rules; the
module-level unicode_to_latex() differing from a fresh encoder with the same options (cache);
PartialLatexToLatexEncoder differing from "copy one well-formed token at a keep-character, else
encode as usual" or raising.
"""
import re, unicodedata
from ..shard import rng_for
from ..model import encoder as M
from ..rec import Recorder
from pylatexenc.latexencode import (
    UnicodeToLatexEncoder, UnicodeToLatexConversionRule, RULE_DICT, RULE_REGEX, RULE_CALLABLE,
    get_builtin_conversion_rules, PartialLatexToLatexEncoder, unicode_to_latex,
)

PROPERTY = 'C04'
LEVEL = 'exploration'
RULE = ('generated encoder configurations (0-3 custom rules mixing dictionary / regular-expression / callable rules with '
        'overlapping matches and multi-character consumption, per-rule protection, followed by the built-in '
        "'defaults' or 'unicode-xml' set or nothing) x 6 protection schemes x 6 unknown-character policies x "
        'non_ascii_only x result class, each applied to strings over every built-in key, all ASCII, control, combining, '
        'astral, unassigned and surrogate code points; plus the partial encoder against an independent tokenizer and '
        'the module-level function against fresh encoders in random option order. Non-trivial = (configuration, '
        'string) where >= 1 rule fired; distinct = distinct (configuration, string).')
EXHAUSTIVE = {'quick': False, 'thorough': False}
ASSUMPTIONS = ['U+007F is not generated (the docs call 32..126 printable; the two readings only differ there)',
               'generated rules are never zero-width',
               "the literal texts of policies 'replace' and 'unihex' are checked by shape (ASCII, '?' / U+XXXX)"]

SCHEMES = ['none', 'braces', 'braces-all', 'braces-almost-all', 'braces-after-macro', 'callable:angle']
POLICIES = ['keep', 'replace', 'ignore', 'fail', 'unihex', 'callable']
REGEXES = [
    (r'ab+', r'\\AB'), (r'[A-Z]{2,}', r'{\g<0>}'), (r'\.\.\.', r'\\ldots'), (r'(a)(b)?', r'<\1>'),
    (r'é+', 'fn:E'), (r'\$\$', r'DD'), (r'-->', r'\\textrightarrow'), (r'[α-ω]{2}', r'\\greek '),
    # patterns whose match depends on what precedes the position (the replacement is applied like re.sub
    # on the whole string: word boundaries, look-behind and ^ see the full input)
    (r'\b[A-Z]{2,}\b', r'{\g<0>}'), (r'(?<=[0-9])-(?=[0-9])', r'--'), (r'^\*', r'\\textbullet{}'),
    (r'\Bb', r'B'), (r'(?<![a-z])a', r'\\A'),
    # the same patterns as above with other replacements: within one rule the first pair in the list wins
    (r'ab+', r'\\ALT'), (r'\.\.\.', r'\\dots'), (r'(a)(b)?', r'[\1]'), (r'-->', r'=>'),
]
WORDS = ['ab', 'X', 'α→', '$', 'é', '--', 'a']
DICT_CHARS = ['a', 'b', 'é', 'α', '$', ' ', '→', '\\', '{', 'ß', '\u0301']
DICT_REPLS = ['\\foo', '\\foo{x}', 'X', "\\'e", '', '\\^\\i', '{\\bar}', '\\x y']

TRIGGERS = ['ab', 'abb', 'XY', 'ABC', '...', 'αβ', '$$', '-->', 'éé', 'α→', 'a', 'X', '--', 'é', '$', 'xAB', '1-2', '*', 'a*b', 'mmHG', '-', 'b']
_BUILTIN = {}


def builtin(name):
    """The built-in tables as the model knows them: private copies taken once at start-up (setup()), before any
    workload touches what the library hands out."""
    if name not in _BUILTIN:
        import types
        _BUILTIN[name] = [types.SimpleNamespace(rule=dict(r.rule)) for r in get_builtin_conversion_rules(name)]
    return _BUILTIN[name]


def alphabet():
    base = list('abcXYZ 12{}$%&#_^~\\<>"\'`-,.;\n\t\r!?|*') + \
        ['\x01', '\x1f', 'é', 'e\u0301', 'ä', 'ß', 'α', 'β', '→', '∞', '“', '—', 'ł', 'ı', '\u0301', '\u0308',
         '\U0001F600', '\ud7ff', '\u0378', '\U0001d538', 'ﬁ', 'Å', '\u212b', 'ǅ', '\ud800', '\ue000', '\U0010ffff',
         '\x80', '\xa0', '\xad']
    return base


def plan(tier, seed):
    if tier == 'quick':
        return [{'kind': 'model', 'configs': 1500, 'per': 10, 'name': 'model%d' % k} for k in range(8)] + \
               [{'kind': 'keys', 'k': k, 'n': 4, 'name': 'keys%d' % k} for k in range(4)] + \
               [{'kind': 'partial', 'count': 12000, 'name': 'partial%d' % k} for k in range(3)] + \
               [{'kind': 'module', 'count': 3000, 'name': 'module'}]
    return [{'kind': 'model', 'configs': 6000, 'per': 12, 'name': 'model%d' % k} for k in range(16)] + \
           [{'kind': 'keys', 'k': k, 'n': 8, 'name': 'keys%d' % k} for k in range(8)] + \
           [{'kind': 'partial', 'count': 60000, 'name': 'partial%d' % k} for k in range(6)] + \
           [{'kind': 'module', 'count': 40000, 'name': 'module'}]


def floors(tier):
    return {'evaluations': 40000, 'distinct_nontrivial': 15000, 'chunk_sequences_compared': 30000,
            'partial_compared': 8000, 'module_level_compared': 2000, 'compositionality_checked': 3000,
            'fail_policy_raised': 300, 'histkeys:rule_kind_fired': 3, 'histkeys:scheme': 6, 'histkeys:policy': 6,
            'per_rule_protection_fired': 1000, 'multichar_consumption': 1000,
            'partial_with_explicit_rules': 2000, 'partial_with_empty_rules': 500,
            'returned_rule_lists_edited_by_caller': 20, 'further_calls_on_same_encoder': 5000}


def setup(rec):
    builtin('defaults')
    builtin('unicode-xml')
    pass


class Chunks(object):
    def __init__(self):
        self.chunks = []

    def __iadd__(self, s):
        self.chunks.append(s)
        return self


def angle(r):
    return '<' + r + '>'


def unk_callable(ch):
    return '[%x]' % ord(ch)


def unk_callable_u2l(ch, u2lobj=None):
    return '[%x]' % ord(ch)


def build(cfg):
    """cfg -> (real rules, model rules)"""
    real, model = [], []
    for r in cfg['rules']:
        if isinstance(r, str):
            real.append(r)
            for br in builtin(r):
                model.append(('dict', br.rule, None))
            continue
        kind, data, rsch = r
        rs = angle if rsch == 'callable:angle' else rsch
        if kind == 'dict':
            d = {ord(k): v for k, v in data.items()}
            real.append(UnicodeToLatexConversionRule(RULE_DICT, d, replacement_latex_protection=rs))
            model.append(('dict', d, rs))
        elif kind == 'regex':
            pats = []
            for pi in data:
                p, rp = REGEXES[pi]
                if rp == 'fn:E':
                    rp = (lambda m: '\\E' * len(m.group()))
                pats.append((re.compile(p), rp))
            real.append(UnicodeToLatexConversionRule(RULE_REGEX, pats, replacement_latex_protection=rs))
            model.append(('regex', pats, rs))
        else:
            w = data
            fn = (lambda w: (lambda s, pos: (len(w), '\\C' + str(len(w))) if s.startswith(w, pos) else None))(w)
            if len(w) % 2 == 0:
                # documented variant: a rule callable that accepts the encoder object as `u2lobj`
                def fn_u2l(s, pos, u2lobj, _fn=fn):
                    assert isinstance(u2lobj, UnicodeToLatexEncoder)
                    return _fn(s, pos)
                real.append(UnicodeToLatexConversionRule(RULE_CALLABLE, fn_u2l, replacement_latex_protection=rs))
            else:
                real.append(UnicodeToLatexConversionRule(RULE_CALLABLE, fn, replacement_latex_protection=rs))
            model.append(('callable', fn, rs))
    return real, model


def gen_config(rng):
    rules = []
    for _ in range(rng.randint(0, 3)):
        kind = rng.choice(['dict', 'regex', 'callable'])
        rsch = rng.choice([None, None, 'none', 'braces', 'braces-all', 'braces-after-macro', 'braces-almost-all',
                           'callable:angle'])
        if kind == 'dict':
            d = {c: rng.choice(DICT_REPLS) for c in rng.sample(DICT_CHARS, rng.randint(1, 4))}
            rules.append(['dict', d, rsch])
        elif kind == 'regex':
            rules.append(['regex', rng.sample(range(len(REGEXES)), rng.randint(1, 3)), rsch])
        else:
            rules.append(['callable', rng.choice(WORDS), rsch])
    tail = rng.choice(['defaults', 'unicode-xml', None, 'defaults'])
    if tail:
        rules.append(tail)
    return {'rules': rules, 'scheme': rng.choice(SCHEMES), 'policy': rng.choice(POLICIES),
            'nao': rng.random() < 0.3, 'cls': rng.choice(['chunks', 'str']), 'u2l': rng.random() < 0.5, 'warn': rng.random() < 0.3}


def make_encoder(cfg, real, cls):
    scheme = angle if cfg['scheme'] == 'callable:angle' else cfg['scheme']
    policy = cfg['policy']
    if policy == 'callable':
        policy = unk_callable_u2l if cfg.get('u2l') else unk_callable
    kw = dict(conversion_rules=real, replacement_latex_protection=scheme, unknown_char_policy=policy,
              non_ascii_only=cfg['nao'], unknown_char_warning=bool(cfg.get('warn', False)))
    if cls == 'chunks':
        kw['latex_string_class'] = Chunks
    return UnicodeToLatexEncoder(**kw)


def check_model(case, rec):
    cfg, s = case['cfg'], case['s']
    real, model = build(cfg)
    scheme = angle if cfg['scheme'] == 'callable:angle' else cfg['scheme']
    policy = unk_callable if cfg['policy'] == 'callable' else cfg['policy']
    try:
        want = M.encode_chunks(s, model, scheme, policy, cfg['nao'])
    except M.Fail:
        want = 'FAIL'
    rec.hist('scheme', cfg['scheme'])
    rec.hist('policy', cfg['policy'])
    try:
        enc = make_encoder(cfg, real, 'chunks')
        got = enc.unicode_to_latex(s).chunks
    except ValueError as e:
        got = 'FAIL'
        if cfg['policy'] != 'fail':
            return 'ValueError raised although unknown_char_policy is %r: %s' % (cfg['policy'], e)
    except Exception as e:
        return 'encoder raised %s: %s' % (type(e).__name__, e)
    rec.monitor('chunk_sequences_compared')
    if want == 'FAIL' or got == 'FAIL':
        if want != got:
            return "policy 'fail': encoder %s, model %s" % ('raised' if got == 'FAIL' else 'returned %r' % (got,),
                                                            'raises' if want == 'FAIL' else 'returns %r' % (want,))
        rec.monitor('fail_policy_raised')
        return None
    err = M.chunks_match(want, got)
    if err:
        return 'chunks %r differ from the documented semantics %r: %s' % (got, want, err)
    # the same encoder object used again: every call converts its own input and hands out its own result object
    # (the custom result class is mutable and appends in place, like the class of the documentation's example)
    if (len(s) + len(cfg['rules'])) % 3 == 0:
        s2 = case.get('s2', s[1:] + s[:1] + 'q')
        first = enc.unicode_to_latex(s)
        snap = list(first.chunks)
        try:
            want2 = M.encode_chunks(s2, model, scheme, policy, cfg['nao'])
        except M.Fail:
            want2 = 'FAIL'
        try:
            second = enc.unicode_to_latex(s2)
            got2 = second.chunks
        except ValueError:
            second, got2 = None, 'FAIL'
        except Exception as e:
            return 'encoder raised %s on a further call: %s' % (type(e).__name__, e)
        rec.monitor('further_calls_on_same_encoder')
        if first.chunks != snap:
            return 'a further call unicode_to_latex(%r) on the same encoder changed the result object of the earlier call ' \
                   'from %r to %r' % (s2, snap, first.chunks)
        if second is first:
            return 'two calls on the same encoder returned the same result object'
        if (want2 == 'FAIL') != (got2 == 'FAIL'):
            return "further call unicode_to_latex(%r): encoder %s, model %s" % (s2, got2, want2)
        if want2 != 'FAIL':
            err = M.chunks_match(want2, got2)
            if err:
                return 'further call unicode_to_latex(%r) on the same encoder: chunks %r differ from the documented ' \
                       'semantics %r: %s' % (s2, got2, want2, err)
    # plain string result class must give the concatenation
    try:
        plain = make_encoder(cfg, real, 'str').unicode_to_latex(s)
    except Exception as e:
        return 'str-result encoder raised %s: %s' % (type(e).__name__, e)
    if plain != ''.join(got):
        return 'string result %r is not the concatenation of the recorded chunks %r' % (plain, got)
    # coverage accounting from the model's point of view
    ns = unicodedata.normalize('NFC', s)
    if len(want) < len(ns):
        rec.monitor('multichar_consumption')
    fired = False
    for kind, data, rsch in model:
        pass
    return None


def model_fired(cfg, s, rec):
    """Which rule kinds fire (for coverage)."""
    real, model = build(cfg)
    ns = unicodedata.normalize('NFC', s)
    pos = 0
    fired = False
    while pos < len(ns):
        ch = ns[pos]
        step = 1
        if not (cfg['nao'] and ord(ch) < 127):
            for kind, data, rsch in model:
                hit = None
                if kind == 'dict' and ord(ch) in data:
                    hit = 1
                elif kind == 'regex':
                    for rx, rp in data:
                        m = rx.match(ns, pos)
                        if m:
                            hit = m.end() - m.start()
                            break
                elif kind == 'callable':
                    r = data(ns, pos)
                    if r:
                        hit = r[0]
                if hit:
                    rec.hist('rule_kind_fired', kind)
                    if rsch is not None:
                        rec.monitor('per_rule_protection_fired')
                    fired = True
                    step = hit
                    break
        pos += max(1, step)
    return fired


# ---------------------------------------------------------------- partial encoder

_TOK = re.compile(r'''
    (?P<env>\\(?:begin|end)(?![A-Za-z])) |
    (?P<word>\\[A-Za-z]+) |
    (?P<sym>\\[^A-Za-z]) |
    (?P<dd>\$\$) | (?P<d>\$) | (?P<c>[{}^_])
''', re.X | re.S)
_ENVNAME = re.compile(r'\s*\{[A-Za-z0-9*._ :/!^()\[\]-]+\}')


def token_at(s, pos):
    """Length of the well-formed LaTeX token starting at s[pos] (a keep-character), or None."""
    m = _TOK.match(s, pos)
    if not m:
        return None
    if m.group('env'):
        m2 = _ENVNAME.match(s, m.end())
        if not m2:
            return None
        return m2.end() - pos
    if m.group('word'):
        j = m.end()
        k = j
        while k < len(s) and s[k].isspace():
            k += 1
        ws = s[j:k]
        if ws.count('\n') >= 2:
            k = j + ws.find('\n')
        return k - pos
    return m.end() - pos


def partial_model(s, keep, model_rules, scheme, policy, nao):
    s = unicodedata.normalize('NFC', s)

    def keeprule(st, pos):
        if st[pos] in keep:
            k = token_at(st, pos)
            if k is not None:
                return (k, st[pos:pos + k])
        return None
    rules = [('callable', keeprule, 'none')] + list(model_rules)
    return M.encode_chunks(s, rules, scheme, policy, nao)


def check_partial(case, rec):
    s = case['s']
    scheme, policy, nao = case['scheme'], case['policy'], case['nao']
    keep = case.get('keep', '\\${}^_')
    model_rules = [('dict', builtin('defaults')[0].rule, None)]
    real_rules = None
    if case.get('rules') is not None:
        # explicit conversion_rules (possibly empty: then no character has a rule at all)
        real_rules, model_rules = build({'rules': case['rules']})
        rec.monitor('partial_with_explicit_rules')
        if not case['rules']:
            rec.monitor('partial_with_empty_rules')
    try:
        want = ''.join(x if isinstance(x, str) else '\0' for x in partial_model(s, keep, model_rules, scheme, policy, nao))
    except M.Fail:
        want = 'FAIL'
    kw = dict(replacement_latex_protection=scheme, unknown_char_policy=policy, non_ascii_only=nao,
              unknown_char_warning=False)
    if 'keep' in case:
        kw['keep_latex_chars'] = keep
    if real_rules is not None:
        kw['conversion_rules'] = real_rules
    try:
        got = PartialLatexToLatexEncoder(**kw).unicode_to_latex(s)
    except ValueError as e:
        got = 'FAIL'
        if policy != 'fail':
            return 'partial encoder raised ValueError with policy %r: %s' % (policy, e)
    except Exception as e:
        return 'partial encoder raised %s: %s' % (type(e).__name__, str(e)[:200])
    rec.monitor('partial_compared')
    if '\0' in want:
        return None
    if got != want:
        return 'partial encoder gives %r, expected %r (copy one well-formed token at each keep-character)' % (got, want)
    return None


# ---------------------------------------------------------------- dispatcher

def check_case(case, rec):
    what = case['what']
    if what == 'model':
        err = check_model(case, rec)
    elif what == 'partial':
        err = check_partial(case, rec)
    elif what == 'compose':
        a, b, scheme = case['a'], case['b'], case['scheme']
        enc = UnicodeToLatexEncoder(replacement_latex_protection=scheme, unknown_char_warning=False)
        rec.monitor('compositionality_checked')
        ab, ea, eb = enc.unicode_to_latex(a + b), enc.unicode_to_latex(a), enc.unicode_to_latex(b)
        err = None
        if ab != ea + eb:
            err = 'enc(a+b)=%r but enc(a)+enc(b)=%r for a=%r b=%r' % (ab, ea + eb, a, b)
    elif what == 'module':
        opts = case['opts']
        try:
            got = unicode_to_latex(case['s'], **opts)
            g = ('ok', got)
        except ValueError:
            g = ('fail',)
        except Exception as e:
            g = ('exc', type(e).__name__)
        try:
            w = ('ok', UnicodeToLatexEncoder(**opts).unicode_to_latex(case['s']))
        except ValueError:
            w = ('fail',)
        except Exception as e:
            w = ('exc', type(e).__name__)
        rec.monitor('module_level_compared')
        err = None
        if g != w:
            err = 'module-level unicode_to_latex gives %r, a fresh encoder with the same options gives %r' % (g, w)
    else:
        err = 'unknown case'
    if err:
        rec.violation(case, '%s | case %r' % (err, {k: v for k, v in case.items()}), mech=what + ':' + err.split(':')[0][:40])


def shrink(v):
    case = dict(v['case'])
    if 's' not in case:
        return v
    from ..util import ddmin_string

    def fails(x):
        r = Recorder()
        check_case(dict(case, s=x), r)
        return r.n_violations > 0
    case['s'] = ddmin_string(case['s'], fails, max_tests=150)
    r = Recorder()
    check_case(case, r)
    return r.violations[0] if r.violations else v


def hostile_caller(rng, rec):
    """A caller that edits what the library hands out: the list returned by get_builtin_conversion_rules() gets an extra
    rule in front, its rule object gets another protection, and a rule dict passed to an encoder is changed afterwards.
    Encoders built later that name the built-in sets must not see any of it (the other model cases of this process
    decide that: they run after this call, against the documented tables)."""
    from pylatexenc.latexencode import get_builtin_conversion_rules, UnicodeToLatexConversionRule, RULE_DICT
    name = rng.choice(['defaults', 'unicode-xml'])
    lst = get_builtin_conversion_rules(name)
    lst.insert(0, UnicodeToLatexConversionRule(RULE_DICT, {ord('a'): 'HOSTILE', 0xe9: 'HOSTILE'}))
    lst.append(UnicodeToLatexConversionRule(RULE_DICT, {ord('z'): 'HOSTILE'}))
    for r in lst:
        try:
            r.replacement_latex_protection = 'none'
        except Exception:
            pass
    rec.monitor('returned_rule_lists_edited_by_caller')


def run_shard(desc, rec):
    rng = rng_for(desc)
    alpha = alphabet()
    kind = desc['kind']
    if kind == 'model':
        for i in range(desc['configs']):
            cfg = gen_config(rng)
            if i % 5 == 0:
                hostile_caller(rng, rec)
            for j in range(desc['per']):
                s = ''.join(rng.choice(TRIGGERS) if rng.random() < 0.3 else rng.choice(alpha)
                            for _ in range(rng.randint(0, 10)))
                rec.case()
                case = {'what': 'model', 'cfg': cfg, 's': s}
                if model_fired(cfg, s, rec):
                    rec.nontrivial((cfg, s))
                if (i * desc['per'] + j) % 1500 == 0:
                    rec.sample({'config': cfg, 'string': s})
                check_case(case, rec)
    elif kind == 'keys':
        # every built-in key alone and with neighbours, every scheme/policy combination rotating
        keys = sorted(set(builtin('defaults')[0].rule.keys()) | set(builtin('unicode-xml')[0].rule.keys()))
        combos = [(sc, po, nao) for sc in SCHEMES for po in POLICIES for nao in (False, True)]
        for idx, o in enumerate(keys):
            if idx % desc['n'] != desc['k'] or o == 127:
                continue
            ch = chr(o)
            for t, tail in enumerate(('defaults', 'unicode-xml')):
                sc, po, nao = combos[(idx + t * 7) % len(combos)]
                cfg = {'rules': [tail], 'scheme': sc, 'policy': po, 'nao': nao, 'cls': 'chunks'}
                for s in (ch, 'a' + ch + 'b', ch + ch, ch + ' x', '{' + ch + '}'):
                    rec.case()
                    rec.nontrivial((tail, sc, po, nao, s))
                    rec.hist('rule_kind_fired', 'dict')
                    check_case({'what': 'model', 'cfg': cfg, 's': s}, rec)
            # compositionality with the per-character default rules
            other = chr(keys[(idx * 7 + 3) % len(keys)])
            for a, b in ((ch, other), (other, ch), ('x' + ch, 'y'), (ch, 'y z')):
                if unicodedata.normalize('NFC', a + b) != unicodedata.normalize('NFC', a) + unicodedata.normalize('NFC', b):
                    continue
                rec.case()
                check_case({'what': 'compose', 'a': a, 'b': b, 'scheme': SCHEMES[idx % 5]}, rec)
    elif kind == 'partial':
        atoms = alpha + ['\\alpha', '\\alpha ', '\\textbf{', '\\begin{a}', '\\begin', '\\end x', '$x$', '\\ ', '\\\\', '\\%',
                         '\\begin {b c}', '\\end{itemize}', '$$', '^', '_', '{', '}', '\\', '\\b\n\nx', '\\beginx', '\\é']
        for i in range(desc['count']):
            s = ''.join(rng.choice(atoms) for _ in range(rng.randint(0, 8)))
            case = {'what': 'partial', 's': s, 'scheme': rng.choice(SCHEMES[:5]), 'policy': rng.choice(POLICIES[:5]),
                    'nao': rng.random() < 0.25}
            if rng.random() < 0.2:
                case['keep'] = rng.choice(['\\', '\\$', '{}', '^_'])
            r = rng.random()
            if r < 0.12:
                case['rules'] = []
            elif r < 0.4:
                case['rules'] = gen_config(rng)['rules']
            rec.case()
            if '\\' in s or '$' in s:
                rec.nontrivial(('partial', s, case['scheme'], case['policy'], case['nao'], case.get('keep')))
            if i % 800 == 0:
                rec.sample(case)
            check_case(case, rec)
    else:
        optsets = [dict(non_ascii_only=n, replacement_latex_protection=p, unknown_char_policy=u, unknown_char_warning=False)
                   for n in (False, True) for p in SCHEMES[:5] for u in POLICIES[:5]]
        for i in range(desc['count']):
            s = ''.join(rng.choice(alpha) for _ in range(rng.randint(0, 8)))
            rec.case()
            check_case({'what': 'module', 's': s, 'opts': rng.choice(optsets)}, rec)


LEVEL_TEXT = ('Exploration with an executable reference model: a 70-line model written from the UnicodeToLatexEncoder docstring is '
              'run beside the real encoder on tens of thousands of (generated configuration, string) pairs; a recording '
              'result class exposes the chunk appended at every step so rule precedence, consumed length and protection are '
              'compared position by position. The partial encoder is compared with the model plus an independent 15-line '
              'regex tokenizer, the module-level function with fresh encoders in random option order, and '
              'compositionality is asserted with the per-character default rules.')
LEVEL_NOTE = ('Trusted: vpl/model/encoder.py; the built-in rule tables are treated as configuration data (the algorithm is '
              'what is checked). The exact texts of the replace/unihex policies are checked by shape only.')
TECHNIQUE = 'runtime monitoring: reference-model monitor comparing per-step chunks of the real encoder (recording result class) over generated rule configurations and strings'
