"""C18 - node-list splitting and key-value parsing are order-preserving partitions.

Refuting events (consequences of the statement only):
  * a returned chars node whose text differs from the source slice at its position;
  * a part that is not a contiguous source slice, parts out of order / overlapping;
  * the source between consecutive parts (and, when empty parts are kept, before the first / after
    the last part) is not made of separators -- exactly one between neighbours when keep_empty;
  * a child node (group, macro, math, comment) that was split, lost or duplicated;
  * more than max_split splits, or a part other than the last still containing a separator;
  * keep_empty=False differing from the non-empty parts of keep_empty=True (no max_split);
  * split_at_node: parts + separator nodes are not the original list in order;
  * parse_keyval_content differing from the model "split at commas, then at the first equals sign,
    combine repeated keys by the policy".

Oracle: a top-level scan of the source written independently of the library's splitting code.
"""
import re
from ..shard import rng_for
from ..util import parse, LatexWalkerParseError
from ..mon import canon
from ..rec import Recorder
from pylatexenc.latexnodes import nodes as N

PROPERTY = 'C18'
LEVEL = 'exploration'
RULE = ('parsed node lists from generated argument-like content (keys, values, separators in every position incl. '
        'leading/trailing/adjacent, nested groups/macros/math/comments containing separators) x 6 separator kinds '
        '(",", "=", multi-char ",,", regex, callable, node predicate) x keep_empty x max_split 0..4/None x skip_none; '
        'key-value parsing under the 4 repeated-key policies with up to 4 repeats, default values, group-unwrapping. '
        'Non-trivial = list with >= 2 top-level separators and >= 1 protected separator inside a child; distinct = '
        'distinct (source, separator, options).')
EXHAUSTIVE = {'quick': False, 'thorough': False}
ASSUMPTIONS = ['generated keys are simple non-empty strings (the documented expectation); empty keys are outside the '
               'quantifier', 'separators are never zero-width']

ATOMS = ['a', 'b', 'k', 'v', 'key', ',', ',', '=', ';', ' ', ' ', '{a,b}', '{x=y}', '{}', '\\textbf{c,d}', '\\alpha ',
         '$e,f$', '%c,=\n', '{ {u,=} }', '\\frac{1,2}{3=4}', '~', ',,', '\\,', '\\=x', '[', ']', '1', '2', '\n']
KEYS = ['a', 'b', 'c', 'k1', 'key']
RX = re.compile(r'\s*[,;]\s*')


def callable_sep(chars, pos):
    i = min([x for x in (chars.find(';', pos), chars.find(',', pos)) if x >= 0] or [-1])
    if i < 0:
        return None
    return (i, i + 1)


SEPS = {
    'comma': (',', re.compile(r',')),
    'eq': ('=', re.compile(r'=')),
    'cc': (',,', re.compile(r',,')),
    'rx': (RX, RX),
    'callable': (callable_sep, re.compile(r'[,;]')),
}


def plan(tier, seed):
    if tier == 'quick':
        return [{'kind': 'split', 'count': 450, 'name': 'split%d' % k} for k in range(8)] + \
               [{'kind': 'keyval', 'count': 1500, 'name': 'kv%d' % k} for k in range(4)] + \
               [{'kind': 'arginfo', 'count': 2500, 'name': 'arginfo%d' % k} for k in range(2)]
    return [{'kind': 'split', 'count': 6000, 'name': 'split%d' % k} for k in range(16)] + \
           [{'kind': 'keyval', 'count': 20000, 'name': 'kv%d' % k} for k in range(8)] + \
           [{'kind': 'arginfo', 'count': 40000, 'name': 'arginfo%d' % k} for k in range(4)]


def floors(tier):
    return {'evaluations': 20000, 'distinct_nontrivial': 3000, 'splits_checked': 50000, 'keyval_checked': 8000,
            'histkeys:sep': 6, 'hist:policy:first': 500, 'hist:policy:concatenate': 500, 'hist:policy:error': 500,
            'hist:policy:last': 500, 'repeated_keys_seen': 1000, 'keyval_second_call_on_same_list': 5000,
            'keyval_default_values_used': 5000, 'all_arguments_info_checked': 1000, 'arginfo_keyval_option_calls': 10000, 'split_at_node_on_lists_with_none': 500, 'separators_left_in_the_unsplit_remainder': 300, 'histkeys:keyval_separators': 2,
            'histkeys:arginfo_constructor': 2, 'content_as_chars_checked': 500, 'keyval_callable_policy_calls': 1000, 'hist:keyval_default:list': 2000,
            'lists_with_none_entries': 2000, 'argument_info_checked': 4000,
            'double_group_same_delimiters': 200, 'double_group_other_delimiters': 200}


def setup(rec):
    pass


def live(nl):
    return [n for n in nl if n is not None]


def check_split(s, nl, sepname, keep_empty, max_split, skip_none, rec):
    sep, seprx = SEPS[sepname]
    rec.monitor('splits_checked')
    rec.hist('sep', sepname)
    orig = live(nl)
    try:
        parts = nl.split_at_chars(sep, keep_empty=keep_empty, max_split=max_split, skip_none=skip_none)
    except Exception as e:
        return 'split_at_chars raised %s: %s' % (type(e).__name__, e)
    lo, hi = nl.pos, nl.pos_end
    if lo is None:
        lo = hi = 0
    spans = []
    nonchars_seen = []
    for pi, part in enumerate(parts):
        if not isinstance(part, N.LatexNodeList):
            return 'part %d is %s, not a node list' % (pi, type(part).__name__)
        ns = live(part)
        cur = None
        for n in ns:
            if not (isinstance(n.pos, int) and isinstance(n.pos_end, int) and lo <= n.pos <= n.pos_end <= hi):
                return 'part %d: node span %r..%r outside the list span %r..%r' % (pi, n.pos, n.pos_end, lo, hi)
            if n.isNodeType(N.LatexCharsNode):
                if n.chars != s[n.pos:n.pos_end]:
                    return 'part %d: chars node %r claims span %d..%d which holds %r' % (pi, n.chars, n.pos, n.pos_end,
                                                                                       s[n.pos:n.pos_end])
            else:
                if not any(n is o for o in orig):
                    return 'part %d: %s node is not one of the original child nodes (a child was rebuilt or split)' % (
                        pi, canon.kind(n))
                nonchars_seen.append(n)
            if cur is not None and n.pos != cur:
                return 'part %d is not a contiguous source slice: node at %d, previous ended at %d' % (pi, n.pos, cur)
            cur = n.pos_end
        if ns:
            a, b = ns[0].pos, ns[-1].pos_end
            if part.latex_verbatim() != s[a:b]:
                return 'part %d: latex_verbatim() %r is not the source slice %r' % (pi, part.latex_verbatim(), s[a:b])
            spans.append((a, b))
        else:
            holds_placeholders = (not skip_none) and len(list(part)) > 0      # kept None entries are content
            if not keep_empty and not holds_placeholders:
                return 'empty part %d returned although keep_empty=False' % pi
            p = part.pos_end if part.pos_end is not None else part.pos
            if not isinstance(p, int) or not (lo <= p <= hi):
                return 'empty part %d has no valid position (pos=%r pos_end=%r)' % (pi, part.pos, part.pos_end)
            if len(list(part)) == 0 and not (isinstance(part.pos, int) and isinstance(part.pos_end, int)
                                             and part.pos == part.pos_end):
                # an empty part is a zero-width list sitting at its separator: both ends are set and equal
                # (seed C18-n: a start position of 0 treated as "not given")
                return 'empty part %d is not a zero-width list with a position (pos=%r pos_end=%r)' % (
                    pi, part.pos, part.pos_end)
            spans.append((p, p))
    # children: every original non-chars node exactly once, in order
    on = [o for o in orig if not o.isNodeType(N.LatexCharsNode)]
    if len(on) != len(nonchars_seen) or any(a is not b for a, b in zip(on, nonchars_seen)):
        return 'child nodes lost, duplicated or reordered: %d original non-chars nodes, %d in the parts' % (
            len(on), len(nonchars_seen))
    # order / gaps
    one = '(?:%s)' % seprx.pattern
    many = '(?:%s)+' % seprx.pattern
    for i in range(len(spans) - 1):
        a, b = spans[i][1], spans[i + 1][0]
        if b < a:
            return 'parts %d and %d overlap or are out of order (%r, %r)' % (i, i + 1, spans[i], spans[i + 1])
        gap = s[a:b]
        if keep_empty:
            if not re.fullmatch(one, gap, re.S):
                return 'between parts %d and %d lies %r, expected exactly one separator' % (i, i + 1, gap)
        elif not re.fullmatch(many, gap, re.S):
            return 'between parts %d and %d lies %r, which is not made of separators' % (i, i + 1, gap)
    if spans:
        head, tail = s[lo:spans[0][0]], s[spans[-1][1]:hi]
        if keep_empty:
            if head or tail:
                return 'with keep_empty the parts must cover the list: uncovered head %r / tail %r' % (head, tail)
        else:
            if (head and not re.fullmatch(many, head, re.S)) or (tail and not re.fullmatch(many, tail, re.S)):
                return 'source before the first / after the last part is not made of separators: %r / %r' % (head, tail)
    elif orig:
        whole = s[lo:hi]
        if keep_empty or not re.fullmatch(many, whole, re.S):
            return 'no parts returned for %r' % whole
    nsplits = max(0, len(parts) - 1)
    if max_split is not None and nsplits > max_split:
        return '%d splits performed with max_split=%d' % (nsplits, max_split)
    # separators remaining at top level
    for pi, part in enumerate(parts):
        lastp = (pi == len(parts) - 1)
        if max_split is not None and lastp:
            continue
        for n in live(part):
            if n.isNodeType(N.LatexCharsNode) and seprx.search(n.chars):
                if sepname == 'rx' and not re.search(r'[,;]', n.chars):
                    continue
                return 'part %d still contains a separator at top level: %r' % (pi, n.chars)
    if keep_empty and max_split is None and isinstance(sep, str):
        joined = sep.join(p.latex_verbatim() for p in parts)
        if joined != s[lo:hi]:
            return 'parts joined with the separator give %r, not the list source %r' % (joined, s[lo:hi])
    has_placeholders = (not skip_none) and any(n is None for n in nl)
    if not keep_empty and max_split is None and not has_placeholders:
        ke = nl.split_at_chars(sep, keep_empty=True, skip_none=skip_none)
        want = [(p.latex_verbatim(), [id(n) for n in live(p) if not n.isNodeType(N.LatexCharsNode)])
                for p in ke if live(p)]
        got = [(p.latex_verbatim(), [id(n) for n in live(p) if not n.isNodeType(N.LatexCharsNode)]) for p in parts]
        if want != got:
            return 'keep_empty=False gives %r but the non-empty parts of keep_empty=True are %r' % (
                [g[0] for g in got], [w[0] for w in want])
    return None


def check_split_at_node(s, nl, max_split, keep_separators, rec, skip_none=True):
    rec.monitor('splits_checked')
    rec.hist('sep', 'node-predicate')
    pred = lambda n: n is not None and (n.isNodeType(N.LatexSpecialsNode) or n.isNodeType(N.LatexCommentNode))
    orig = live(nl)
    try:
        parts = nl.split_at_node(pred, keep_separators=keep_separators, max_split=max_split, skip_none=skip_none)
        plain = nl.split_at_node(pred, keep_separators=keep_separators, max_split=max_split, skip_none=skip_none,
                                 call_make_nodelist=False)
    except Exception as e:
        return 'split_at_node raised %s: %s' % (type(e).__name__, e)
    if [[id(n) for n in p] for p in parts] != [[id(n) for n in p] for p in plain]:
        return 'split_at_node(call_make_nodelist=False) returns other parts than with the walker\'s make_nodelist'
    # skip_none only decides whether None placeholders are dropped: with skip_none=False every one of them is still there
    n_none_in = sum(1 for n in nl if n is None)
    n_none_out = sum(1 for p in parts for n in p if n is None)
    if n_none_in:
        rec.monitor('split_at_node_on_lists_with_none')
    if skip_none and n_none_out:
        return 'split_at_node(skip_none=True): %d None entries in the parts' % n_none_out
    if not skip_none and n_none_out != n_none_in:
        return 'split_at_node(skip_none=False): the list has %d None placeholders, the parts hold %d' % (n_none_in, n_none_out)
    flat = []
    for pi, p in enumerate(parts):
        ns = live(p)
        for j, n in enumerate(ns):
            if pred(n) and not (keep_separators and j == 0 and pi > 0):
                if max_split is None:
                    return 'split_at_node: part %d contains a separator node although max_split is None' % pi
            flat.append(n)
    if keep_separators:
        if len(flat) != len(orig) or any(a is not b for a, b in zip(flat, orig)):
            return 'split_at_node(keep_separators=True): parts do not concatenate to the original list'
    else:
        kept = [n for n in orig]
        # remove separators that were used for splitting: flat must be a subsequence of orig missing only separators
        it = iter(orig)
        for n in flat:
            for o in it:
                if o is n:
                    break
                if not pred(o):
                    return 'split_at_node: a non-separator node was dropped'
            else:
                return 'split_at_node: parts are not in original order'
        for o in it:
            if not pred(o):
                return 'split_at_node: a trailing non-separator node was dropped'
        # every split consumes exactly one separator node; separators that were not used for splitting (beyond max_split)
        # stay in the unsplit remainder
        n_sep_in = sum(1 for n in orig if pred(n))
        n_sep_out = sum(1 for n in flat if pred(n))
        if n_sep_in - n_sep_out != len(parts) - 1:
            return 'split_at_node(max_split=%r): %d separator nodes are missing from the parts but %d splits were performed ' \
                   '(the remainder after the last split must stay as it is)' % (max_split, n_sep_in - n_sep_out, len(parts) - 1)
        if max_split is not None and n_sep_out:
            rec.monitor('separators_left_in_the_unsplit_remainder')
    if max_split is not None and len(parts) - 1 > max_split:
        return 'split_at_node: %d splits performed with max_split=%d' % (len(parts) - 1, max_split)
    return None


# ---------------------------------------------------------------- key-value model

def model_keyval(s, nl, policy, extract, comma=',', eq='='):
    """Independent top-level scan.  Returns ordered list of (key, [value verbatim pieces]) or 'ERROR'."""
    items = []          # top-level: ('c', char, abs_pos) | ('n', node)
    for n in live(nl):
        if n.isNodeType(N.LatexCharsNode):
            for i, ch in enumerate(s[n.pos:n.pos_end]):
                items.append(('c', ch, n.pos + i))
        else:
            items.append(('n', n))
    parts = [[]]
    for it in items:
        if it[0] == 'c' and it[1] == comma:
            parts.append([])
        else:
            parts[-1].append(it)
    result = []
    index = {}
    for part in parts:
        if not part:
            continue
        eqi = None
        for i, it in enumerate(part):
            if it[0] == 'c' and it[1] == eq:
                eqi = i
                break
        keyitems = part if eqi is None else part[:eqi]
        key = ''
        for it in keyitems:
            if it[0] == 'c':
                key += it[1]
            else:
                return None     # key is not a simple string: outside the quantifier
        if eqi is None:
            value = None
        else:
            vitems = part[eqi + 1:]
            if not vitems:
                # 'k=' : splitting at the equals sign (keep_empty off) yields the key alone, i.e. no value given
                value = None
            else:
                a = vitems[0][2] if vitems[0][0] == 'c' else vitems[0][1].pos
                b = (vitems[-1][2] + 1) if vitems[-1][0] == 'c' else vitems[-1][1].pos_end
                value = s[a:b]
                if extract and len(vitems) == 1 and vitems[0][0] == 'n' and vitems[0][1].isNodeType(N.LatexGroupNode):
                    g = vitems[0][1]
                    value = s[g.pos + 1:g.pos_end - 1]
        if key == '':
            return None
        if key in index:
            if policy == 'error':
                return 'ERROR'
            if policy == 'first':
                continue
            if policy == 'last':
                result[index[key]] = (key, [value])
            else:
                result[index[key]] = (key, result[index[key]][1] + [value])
        else:
            index[key] = len(result)
            result.append((key, [value]))
    return result


_DEFAULTS = {}


def default_value(kind):
    """Value for keys given without '=': None, a single node, or a LatexNodeList (of a separately parsed 'D{v}')."""
    if kind is None:
        return None, ''
    if 'nl' not in _DEFAULTS:
        _DEFAULTS['nl'] = parse('D{v}', tolerant=False)
    nl = _DEFAULTS['nl']
    if kind == 'node':
        return nl[0], 'D'
    if kind == 'empty':
        if 'empty' not in _DEFAULTS:
            _DEFAULTS['empty'] = N.LatexNodeList([])
        return _DEFAULTS['empty'], ''
    return nl, 'D{v}'


def check_keyval(s, nl, policy, extract, rec, default=None, second_policy=None, seps=(',', '=')):
    before = canon.canon(nl)
    err = check_keyval_once(s, nl, policy, extract, rec, default, seps)
    if err:
        return err
    # the call must leave the list it was called on (and the caller's default value) as they were: the parsed tree is
    # shared with every later consumer
    if canon.canon(nl) != before:
        return 'parse_keyval_content(%r) modified the node list it was called on: now %s' % (policy, canon.short(nl))
    if default is not None:
        dv, dtext = default_value(default)
        got = dv.latex_verbatim()
        if got != dtext or (default == 'list' and len(dv) != 2):
            _DEFAULTS.clear()
            return 'parse_keyval_content(%r) modified the default value object passed to it: now %r, was %r' % (
                policy, got, dtext)
    if second_policy is not None:
        rec.monitor('keyval_second_call_on_same_list')
        err = check_keyval_once(s, nl, second_policy, extract, rec, default, seps)
        if err:
            return 'second call on the same node list (first call used policy %r): %s' % (policy, err)
    return None


def check_keyval_once(s, nl, policy, extract, rec, default=None, seps=(',', '=')):
    rec.monitor('keyval_checked')
    rec.hist('policy', policy)
    rec.hist('keyval_default', str(default))
    model_policy = {'callable-first': 'first', 'callable-last': 'last'}.get(policy, policy)
    want = model_keyval(s, nl, model_policy, extract, seps[0], seps[1])
    rec.hist('keyval_separators', seps[0] + seps[1])
    if want is None:
        rec.monitor('keyval_outside_quantifier')
        return None
    calls = []
    action = policy
    if policy.startswith('callable'):
        def action(key, prev_value, new_value, result_keyvals=None):
            calls.append((key, result_keyvals is not None and key in result_keyvals))
            return result_keyvals[key] if policy == 'callable-first' else new_value
    dv, dtext = default_value(default)
    try:
        import collections
        kwx = {}
        if tuple(seps) != (',', '='):
            kwx = {'comma_sep_chars': seps[0], 'eq_sep_chars': seps[1], 'dict_type': collections.OrderedDict}
        kv = nl.parse_keyval_content(repeated_key_aggregate_action=action, extract_value_group_contents=extract,
                                     default_value_nodelist=dv, **kwx)
        if kwx and not isinstance(kv, collections.OrderedDict):
            return 'parse_keyval_content(dict_type=OrderedDict) returned a %s' % type(kv).__name__
    except ValueError as e:
        if want == 'ERROR':
            rec.monitor('repeated_keys_seen')
            return None
        return 'parse_keyval_content(%r) raised ValueError: %s' % (policy, e)
    except Exception as e:
        return 'parse_keyval_content(%r) raised %s: %s' % (policy, type(e).__name__, e)
    if want == 'ERROR':
        return "policy 'error' did not raise for a repeated key; result keys %r" % (list(kv.keys()),)
    if list(kv.keys()) != [k for k, _ in want]:
        return 'keys %r, expected %r' % (list(kv.keys()), [k for k, _ in want])
    if policy.startswith('callable'):
        rec.monitor('keyval_callable_policy_calls', len(calls))
        if any(not seen for _, seen in calls):
            return 'custom aggregation callable was called for a key not yet in result_keyvals: %r' % (calls,)
    for k, pieces in want:
        v = kv[k]
        if not isinstance(v, N.LatexNodeList):
            return 'value of key %r is %s, not a node list' % (k, type(v).__name__)
        exp = ''.join(dtext if p is None else p for p in pieces)
        if len(pieces) > 1:
            rec.monitor('repeated_keys_seen')
        if None in pieces and default is not None:
            rec.monitor('keyval_default_values_used')
        got = v.latex_verbatim()
        if got != exp:
            return 'value of key %r is %r, expected %r (policy %s)' % (k, got, exp, policy)
        for n in live(v):
            if n.isNodeType(N.LatexCharsNode) and n.latex_walker is nl.latex_walker and n.chars != s[n.pos:n.pos_end]:
                return 'value of key %r: chars node %r claims span %d..%d holding %r' % (k, n.chars, n.pos, n.pos_end,
                                                                                        s[n.pos:n.pos_end])
    return None


_OPTSCTX = []


def opts_context():
    if not _OPTSCTX:
        from pylatexenc.macrospec import LatexContextDb, MacroSpec, EnvironmentSpec
        from pylatexenc.latexnodes import LatexArgumentSpec
        db = LatexContextDb()
        db.add_context_category('c', macros=[
            MacroSpec('opts', [LatexArgumentSpec('[', argname='options'), LatexArgumentSpec('{', argname='main')]),
            MacroSpec('textbf', '{'), MacroSpec('alpha', ''), MacroSpec('frac', '{{')])
        db.set_unknown_macro_spec(MacroSpec(''))
        _OPTSCTX.append(db)
    return _OPTSCTX[0]


def check_arginfo(case, rec):
    """ParsedArgumentsInfo / SingleParsedArgumentInfo: the documented content of an argument, and key-value /
    splitting through that entry point agreeing with the node-list methods on that content."""
    from pylatexenc.latexnodes import ParsedArgumentsInfo
    s = case['s']
    try:
        nl = parse(s, ctx=opts_context(), tolerant=False)
    except Exception:
        rec.monitor('unparsable_content')
        return None
    for n in canon.walk(nl):
        if canon.kind(n) != 'macro' or n.macroname != 'opts' or n.nodeargd is None:
            continue
        info = ParsedArgumentsInfo(node=n) if (n.pos + len(s)) % 3 else ParsedArgumentsInfo(parsed_arguments=n.nodeargd)
        rec.hist('arginfo_constructor', 'node' if (n.pos + len(s)) % 3 else 'parsed_arguments')
        # the bulk accessor hands out the same argument nodes under the documented keys
        rec.monitor('all_arguments_info_checked')
        for req, wantkeys in ((None, [0, 1, 'main', 'options']), (['options'], ['options']), ([1], [1]),
                              (['main', 0], [0, 'main'])):
            try:
                allinfo = info.get_all_arguments_info(req, allow_additional_arguments=True)
            except Exception as e:
                return 'get_all_arguments_info(%r) raised %s: %s' % (req, type(e).__name__, e)
            if sorted(allinfo.keys(), key=str) != wantkeys:
                return 'get_all_arguments_info(%r) has keys %r, documented %r' % (req, sorted(allinfo.keys(), key=str), wantkeys)
            for kk, ai in allinfo.items():
                j = {'options': 0, 'main': 1}.get(kk, kk)
                if ai.argument_node_object is not n.nodeargd.argnlist[j]:
                    return 'get_all_arguments_info(%r)[%r] holds %s, the argument is %s' % (
                        req, kk, canon.short(ai.argument_node_object), canon.short(n.nodeargd.argnlist[j]))
        for k, key in ((0, 'options'), (1, 'main')):
            rec.monitor('argument_info_checked')
            a = n.nodeargd.argnlist[k]
            for getter in (k, key):
                ai = info.get_argument_info(getter)
                if ai.was_provided() != (a is not None):
                    return 'was_provided() is %r for argument %r (node %s)' % (ai.was_provided(), getter, canon.short(a))
                for unwrap in (True, False):
                    got = list(ai.get_content_nodelist(unwrap_double_group=unwrap))
                    # documented rule
                    if a is None:
                        want = [None]
                    elif a.isNodeType(N.LatexGroupNode):
                        want = list(a.nodelist)
                        if unwrap and len(want) == 1 and want[0] is not None and want[0].isNodeType(N.LatexGroupNode):
                            if want[0].delimiters[0] != a.delimiters[0]:
                                rec.monitor('double_group_other_delimiters')
                                want = list(want[0].nodelist)
                            else:
                                rec.monitor('double_group_same_delimiters')
                    else:
                        want = [a]
                    if len(got) != len(want) or any(x is not y for x, y in zip(got, want)):
                        return ('get_content_nodelist(unwrap_double_group=%r) of argument %r gives %s, the documented '
                                'content is %s' % (unwrap, getter, canon.short(got), canon.short(want)))
            ai = info.get_argument_info(k)
            if a is not None:
                content = ai.get_content_nodelist()
                # character content: concatenated character nodes, comments ignored, anything else refused
                def flat(nodes):
                    # characters, comments, and group nodes containing such nodes (LatexNodeList.get_content_as_chars)
                    out = ''
                    for c in nodes:
                        if c is None or c.isNodeType(N.LatexCommentNode):
                            continue
                        if c.isNodeType(N.LatexCharsNode):
                            out += c.chars
                        elif c.isNodeType(N.LatexGroupNode):
                            sub = flat(c.nodelist)
                            if sub is None:
                                return None
                            out += sub
                        else:
                            return None
                    return out
                wantc = flat(content)
                simple = wantc is not None
                try:
                    chars = ai.get_content_as_chars()
                    if not simple:
                        return 'get_content_as_chars() returns %r for content %s with non-character nodes' % (
                            chars, canon.short(content))
                    rec.monitor('content_as_chars_checked')
                    if chars != wantc:
                        return 'get_content_as_chars() gives %r, the character nodes (incl. inside groups) hold %r' % (chars, wantc)
                except LatexWalkerParseError:
                    if simple:
                        return 'get_content_as_chars() refuses character-only content %s' % canon.short(content)
                # key-value parsing through the argument info == key-value parsing of that content
                try:
                    kv1 = ai.parse_content_as_keyval()
                    r1 = [(kk, vv.latex_verbatim()) for kk, vv in kv1.items()]
                except Exception as e:
                    r1 = ('exc', type(e).__name__)
                try:
                    kv2 = content.parse_keyval_content()
                    r2 = [(kk, vv.latex_verbatim()) for kk, vv in kv2.items()]
                except Exception as e:
                    r2 = ('exc', type(e).__name__)
                if r1 != r2:
                    return 'parse_content_as_keyval() gives %r, parse_keyval_content() of the argument content gives %r' % (r1, r2)
                # the same info object asked again with other option values: every call answers for its own options
                for kwx in ({'repeated_key_aggregate_action': 'first'}, {'repeated_key_aggregate_action': 'last'},
                            {'repeated_key_aggregate_action': 'error'}, {'repeated_key_aggregate_action': 'concatenate'},
                            {'comma_sep_chars': ';'}, {'comma_sep_chars': ','}, {'extract_value_group_contents': False},
                            {'extract_value_group_contents': True}):
                    rec.monitor('arginfo_keyval_option_calls')
                    try:
                        q1 = [(kk, vv.latex_verbatim()) for kk, vv in ai.parse_content_as_keyval(**kwx).items()]
                    except Exception as e:
                        q1 = ('exc', type(e).__name__)
                    try:
                        q2 = [(kk, vv.latex_verbatim()) for kk, vv in content.parse_keyval_content(**kwx).items()]
                    except Exception as e:
                        q2 = ('exc', type(e).__name__)
                    if q1 != q2:
                        return 'parse_content_as_keyval(%r) on an info object used before gives %r, parse_keyval_content(%r) ' \
                               'of the argument content gives %r' % (kwx, q1, kwx, q2)
                want_kv = model_keyval(s, content, 'concatenate', True) if isinstance(content, N.LatexNodeList) else None
                if want_kv not in (None, 'ERROR') and not isinstance(r1, tuple):
                    exp = [(kk, ''.join(p or '' for p in pieces)) for kk, pieces in want_kv]
                    if exp != r1:
                        return 'key-values of argument %r are %r, the model gives %r' % (k, r1, exp)
    return None


def check_case(case, rec):
    if case.get('what') == 'arginfo':
        err = check_arginfo(case, rec)
        if err:
            rec.violation(case, '%s | source %r' % (err, case['s']), mech='arginfo:' + err.split(' ')[0][:30])
        return
    s = case['s']
    try:
        nl = parse(s, tolerant=False)
    except Exception:
        rec.monitor('unparsable_content')
        return
    if nl is None or nl.pos is None:
        return
    if case.get('none_at'):
        # node lists returned by the parser may contain None entries (absent arguments, tolerant mode):
        # insert some and check that they neither break nor move anything
        items = list(nl)
        for i in sorted(case['none_at'], reverse=True):
            items.insert(min(i, len(items)), None)
        nl = nl.latex_walker.make_nodelist(items, parsing_state=nl.parsing_state, pos=nl.pos, pos_end=nl.pos_end)
        rec.monitor('lists_with_none_entries')
    what = case['what']
    if what == 'split':
        err = check_split(s, nl, case['sep'], case['keep_empty'], case['max_split'], case.get('skip_none', True), rec)
    elif what == 'split_node':
        err = check_split_at_node(s, nl, case['max_split'], case['keep_separators'], rec, case.get('skip_none', True))
    else:
        err = check_keyval(s, nl, case['policy'], case.get('extract', True), rec, case.get('default'),
                           case.get('second_policy'), tuple(case.get('seps', (',', '='))))
    if err:
        rec.violation(case, '%s | source %r options %r' % (err, s, {k: v for k, v in case.items() if k != 's'}),
                      mech=what + ':' + err.split(':')[0][:40])


def shrink(v):
    from ..util import ddmin_string
    case = dict(v['case'])

    def fails(x):
        r = Recorder()
        check_case(dict(case, s=x), r)
        return r.n_violations > 0
    case['s'] = ddmin_string(case['s'], fails, max_tests=200)
    r = Recorder()
    check_case(case, r)
    return r.violations[0] if r.violations else v


def run_shard(desc, rec):
    rng = rng_for(desc)
    if desc['kind'] == 'split':
        for i in range(desc['count']):
            s = ''.join(rng.choice(ATOMS) for _ in range(rng.randint(0, 9)))
            try:
                nl = parse(s, tolerant=False)
            except Exception:
                continue
            tl = ''.join(n.chars for n in live(nl) if n.isNodeType(N.LatexCharsNode)) if nl is not None else ''
            protected = any(c in s for c in ('{a,b}', '$e,f$', 'c,d', '%c,=', '1,2'))
            if i % 60 == 0:
                rec.sample(s)
            none_at = [rng.randrange(0, 6) for _ in range(rng.randint(1, 2))] if i % 5 == 0 else None
            for sepname in SEPS:
                for ke in (True, False):
                    for ms in (None, 0, 1, 2, 4):
                        rec.case()
                        case = {'s': s, 'what': 'split', 'sep': sepname, 'keep_empty': ke, 'max_split': ms,
                                'skip_none': bool(i % 2)}
                        if none_at:
                            case['none_at'] = none_at
                        if len(re.findall('[,;=]', tl)) >= 2 and protected:
                            rec.nontrivial((s, sepname, ke, ms))
                        check_case(case, rec)
            for ks in (False, True):
                for ms in (None, 0, 1, 3):
                    rec.case()
                    case = {'s': s, 'what': 'split_node', 'max_split': ms, 'keep_separators': ks, 'skip_none': bool((i + (ms or 0)) % 2)}
                    if none_at:
                        case['none_at'] = none_at
                    check_case(case, rec)
    elif desc['kind'] == 'arginfo':
        contents = ['a=1,b=2', '{a=1,b=2}', '{[}', '[x]', 'k', '', ' a = 1 ', '{a}{b}', '\\textbf{a,b}', '{{a,b}}', 'a,{b,c},d',
                    '{a=1},b={2}', '{a=1,b=2}c', '\\alpha', '{(a,b)}', 'x={y=z}', 'a=1,a=2', 'k={v},k=w,j', 'a=1;a=2,b', 'p,p,p=3']
        for i in range(desc['count']):
            opt = rng.choice(contents + [None, None])
            main = rng.choice(contents)
            s = rng.choice(['', 'pre ']) + '\\opts' + ('' if opt is None else '[' + opt + ']') + '{' + main + '}' + rng.choice(['', ' post'])
            if opt is not None and '[x]' in opt:
                s = s.replace('[[x]]', '[{[x]}]')
            rec.case()
            rec.nontrivial(('arginfo', s))
            if i % 400 == 0:
                rec.sample(s)
            check_case({'what': 'arginfo', 's': s}, rec)
    else:
        vals = ['1', 'x y', '{a,b}', '{x=y}', '\\textbf{c,d}', '$e,f$', '', ' 2 ', '{p}q', 'u=v', '{ {w} }', '\\alpha', '%c,\n3',
                # values that are empty once unwrapped
                '{}', '{}', ' {} ', '{ }']
        for i in range(desc['count']):
            n = rng.randint(1, 6)
            keys = [rng.choice(KEYS) for _ in range(n)]
            if rng.random() < 0.5:
                keys[rng.randrange(n)] = keys[0]        # force repeats
            if rng.random() < 0.2 and n >= 3:
                keys[1] = keys[0]
                keys[2] = keys[0]
            parts = []
            for k in keys:
                pad = rng.choice(['', '', ' '])
                if rng.random() < 0.2:
                    parts.append(pad + k + pad)
                else:
                    parts.append(pad + k + pad + '=' + rng.choice(vals))
            joiner = [rng.choice([',', ',', ', ', ',,', ' ,']) for _ in parts]
            s = ''.join(p + j for p, j in zip(parts, joiner))
            if rng.random() < 0.5:
                s = s.rstrip(', ')
            if rng.random() < 0.1:
                s = ',' + s
            if i % 150 == 0:
                rec.sample(s)
            for pi, policy in enumerate(('concatenate', 'first', 'last', 'error', 'callable-first', 'callable-last')):
                rec.case()
                case = {'s': s if i % 4 != 3 else s.replace(',', ';').replace('=', ':'), 'what': 'keyval', 'policy': policy,
                        'extract': bool((i + len(policy)) % 2), 'seps': [',', '='] if i % 4 != 3 else [';', ':'],
                        'default': (None, 'node', 'list', 'empty')[(i + pi) % 4],
                        'second_policy': (None, 'first', 'concatenate', 'last')[(i // 3 + pi) % 4]}
                if len(set(keys)) < len(keys):
                    rec.nontrivial((s, policy))
                check_case(case, rec)


LEVEL_TEXT = ('Exploration with a consequence oracle and a reference model: thousands of generated argument-like sources are '
              'parsed by the real parser and the returned node lists are split by the real split_at_chars / '
              'split_at_node under every option combination; each result is checked against the consequences of the '
              'specification (positions, contiguity, separators-only gaps, children intact, max_split bound, keep_empty '
              'consistency) and parse_keyval_content against a 60-line model that scans the top-level source itself.')
LEVEL_NOTE = ('Trusted: the top-level scanner and the gap regular expressions in vpl/checks/c18.py; only consequences of the '
              'statement are asserted, so "at most n splits" variants are not alarms.')
TECHNIQUE = 'runtime monitoring: consequence oracle + independent top-level-scan reference model over generated argument-like node lists and all option combinations'
