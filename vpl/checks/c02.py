"""C02 - parsing recovers the structure a well-formed document was written with.

Refuting event: the strict parse of a grammar-generated document differs from
the generator's ground truth (nesting, node kinds, names, delimiters, display
type, and per declared argument slot the written argument or 'absent').

Oracle: the document grammar of vpl/gen/doc.py renders an abstract document to
source with explicit whitespace and never patches an ambiguous draw (it
re-draws), so the abstract document *is* the ground truth; comparison ignores
whitespace inside text only (verbatim text is compared exactly).
"""
import itertools
from ..gen import doc as D, ctx as X
from ..shard import rng_for
from ..util import parse, LatexWalkerParseError
from ..rec import Recorder

PROPERTY = 'C02'
LEVEL = 'exploration'
RULE = ('random derivations of the document grammar (depth <= 4 quick / 6 thorough) under the default context '
        '(hand-written vocabulary of ~90 standard macros/environments with their documented signatures) and under '
        'generated custom contexts declaring macros/environments with every signature over '
        '{*,[,{,m,o,s,t<c>,r<c1c2>,d<c1c2>,v} (0-3 slots, systematic first/middle/last coverage), text-/math-mode '
        'arguments, math environments, with and without unknown-macro fallback and paragraph specials; plus all '
        'sequences of up to 2 (quick) / 3 (thorough) atoms of a reduced vocabulary joined with and without '
        'whitespace. Non-trivial = distinct expected structure with >= 3 different construct kinds.')
EXHAUSTIVE = {'quick': False, 'thorough': False}
ASSUMPTIONS = ['the grammar only emits documents that are unambiguous under LaTeX adjacency rules (ambiguous draws '
               'are re-drawn, never patched)',
               'comments are written before {/m arguments only in the main workload; comments before other '
               'argument kinds are a separate workload matched to known finding K3']
SHARD_TIMEOUT = {'quick': 600, 'thorough': 3000}


def plan(tier, seed):
    if tier == 'quick':
        sh = [{'kind': 'default', 'n': 500, 'depth': 4, 'name': 'def%d' % i} for i in range(5)]
        sh += [{'kind': 'custom', 'n': 500, 'depth': 4, 'name': 'cus%d' % i, 'ci': i} for i in range(8)]
        sh += [{'kind': 'enum', 'L': 2, 'k': i, 'n': 2, 'name': 'enum%d' % i} for i in range(2)]
        sh += [{'kind': 'special', 'name': 'special'}]
        return sh
    sh = [{'kind': 'default', 'n': 15000, 'depth': 4 + (i % 3), 'name': 'def%d' % i} for i in range(16)]
    sh += [{'kind': 'custom', 'n': 12000, 'depth': 4 + (i % 3), 'name': 'cus%d' % i, 'ci': i} for i in range(32)]
    sh += [{'kind': 'enum', 'L': 3, 'k': i, 'n': 16, 'name': 'enum%d' % i} for i in range(16)]
    sh += [{'kind': 'special', 'name': 'special'}]
    return sh


def floors(tier):
    return {'evaluations': 5000, 'distinct_nontrivial': 1500, 'structure_compared': 5000,
            'histkeys:slot': 40, 'hist:vocab:custom': 2000, 'hist:vocab:default': 1000,
            'k3_witness_checked': 1, 'new_style_verbatim_env_documents': 100}


def setup(rec):
    pass


_CTX_CACHE = {}


def vocab_for(case):
    """Rebuild the vocabulary (and context) of a case deterministically."""
    import random
    key = (case['vocab'], tuple(case.get('vseed') or ()))
    if key in _CTX_CACHE:
        return _CTX_CACHE[key]
    if case['vocab'] == 'default':
        v = D.default_vocab()
        db = None
    else:
        vs = case['vseed']
        v = X.custom_vocab(random.Random(vs[0]), full_cover_index=vs[1])
        db = v.make_ctx()
    if len(_CTX_CACHE) > 50:
        _CTX_CACHE.clear()
    _CTX_CACHE[key] = (v, db)
    return v, db


def kinds_in(exp, acc=None):
    if acc is None:
        acc = set()
    for x in exp:
        if x is None:
            continue
        acc.add(x[0])
        if x[0] in ('G',):
            kinds_in(x[3], acc)
        elif x[0] == 'MATH':
            kinds_in(x[4], acc)
        elif x[0] == 'M':
            kinds_in([a for a in x[2] if a is not None], acc)
        elif x[0] == 'E':
            kinds_in([a for a in x[2] if a is not None], acc)
            kinds_in(x[3], acc)
    return acc


def slot_hist(ast, vocab, rec):
    for it in ast:
        k = it[0]
        if k == 'G':
            slot_hist(it[1], vocab, rec)
        elif k == 'MATH':
            slot_hist(it[3], vocab, rec)
        elif k in ('M', 'E'):
            d = (vocab.macros if k == 'M' else vocab.envs).get(it[1])
            if d:
                nsl = len(d['sig'])
                for i, (kind, a) in enumerate(zip(d['sig'], it[2])):
                    posn = 'only' if nsl == 1 else ('first' if i == 0 else ('last' if i == nsl - 1 else 'middle'))
                    form = 'absent' if a is None else a[1]
                    rec.hist('slot', '%s/%s/%s/%s' % (k, kind, posn, form))
                    if a is not None and a[1] == 'grp':
                        slot_hist(a[4], vocab, rec)
            if k == 'E':
                slot_hist(it[3], vocab, rec)


def has_comment_before_nonbrace_arg(ast):
    for it in ast:
        k = it[0]
        subs = []
        if k == 'G':
            subs.append(it[1])
        elif k == 'MATH':
            subs.append(it[3])
        elif k in ('M', 'E'):
            for a in it[2]:
                if a is None:
                    continue
                if any(w[0] == 'C' for w in a[0]):
                    if not (a[1] in ('tok', 'tokm') or (a[1] == 'grp' and a[2] == '{')):
                        return True
                if a[1] == 'grp':
                    subs.append(a[4])
            if k == 'E':
                subs.append(it[3])
        for s in subs:
            if has_comment_before_nonbrace_arg(s):
                return True
    return False


def strip_arg_comments(ast):
    out = []
    for it in ast:
        k = it[0]
        if k == 'G':
            out.append(('G', strip_arg_comments(it[1])))
        elif k == 'MATH':
            out.append(('MATH', it[1], it[2], strip_arg_comments(it[3])))
        elif k in ('M', 'E'):
            args = []
            for a in it[2]:
                if a is None:
                    args.append(None)
                    continue
                pre = [w for w in a[0] if w[0] != 'C']
                if a[1] == 'grp':
                    args.append((pre, 'grp', a[2], a[3], strip_arg_comments(a[4])))
                else:
                    args.append((pre,) + tuple(a[1:]))
            if k == 'M':
                out.append(('M', it[1], args))
            else:
                out.append(('E', it[1], args, strip_arg_comments(it[3])))
        else:
            out.append(it)
    return out


def evaluate(ast, src, vocab, db):
    """Returns (mismatch or None, expected)."""
    exp = D.expected(ast, vocab)
    try:
        nl = parse(src, ctx=db, tolerant=False)
    except LatexWalkerParseError as e:
        return 'well-formed document rejected in strict mode: %s' % (str(e).splitlines()[0][:200]), exp
    except Exception as e:
        return 'strict parse raised %s: %s' % (type(e).__name__, str(e)[:200]), exp
    got = D.normalize_parsed(nl)
    mm = D.same(exp, got)
    if mm is None:
        mm = blanks_before_closing_brace_kept(nl, src)
    return mm, exp


def blanks_before_closing_brace_kept(nl, src):
    """The normal form drops whitespace-only text, so a blank written between the last construct of a {group} and its
    closing brace would go unnoticed if the parser lost it (seed C02-n): the children of every brace group must
    reach from the opening to the closing brace."""
    from ..mon import canon
    for n in canon.walk(nl):
        if canon.kind(n) != 'group' or tuple(getattr(n, 'delimiters', ()) or ()) != ('{', '}'):
            continue
        ch = [c for c in (n.nodelist or []) if c is not None]
        if not ch or not all(isinstance(c.pos, int) and isinstance(c.pos_end, int) for c in ch):
            continue
        if not (isinstance(n.pos, int) and isinstance(n.pos_end, int)) or src[n.pos_end - 1:n.pos_end] != '}':
            continue
        if ch[0].pos != n.pos + 1 or ch[-1].pos_end != n.pos_end - 1:
            return 'group %r: its children cover %d..%d, the written content is %d..%d (%r is not represented)' % (
                src[n.pos:n.pos_end], ch[0].pos, ch[-1].pos_end, n.pos + 1, n.pos_end - 1,
                src[n.pos + 1:ch[0].pos] + src[ch[-1].pos_end:n.pos_end - 1])
    return None


def check_case(case, rec):
    vocab, db = vocab_for(case)
    ast = D.from_jsonable(case['ast'])
    try:
        src, _ = D.render(ast, vocab)
    except D.Redraw:
        return
    rec.monitor('structure_compared')
    if '\\begin{vcode}' in src:
        rec.monitor('new_style_verbatim_env_documents')
    mm, exp = evaluate(ast, src, vocab, db)
    ks = kinds_in(exp)
    if len(ks) >= 3:
        rec.nontrivial(D.to_jsonable(exp))
    for k in ks:
        rec.hist('construct', k)
    rec.hist('vocab', case['vocab'])
    if mm:
        mech = None
        if has_comment_before_nonbrace_arg(ast):
            ast2 = strip_arg_comments(ast)
            try:
                src2, _ = D.render(ast2, vocab)
                mm2, _ = evaluate(ast2, src2, vocab, db)
            except D.Redraw:
                mm2 = 'redraw'
            if mm2 is None:
                mech = 'K3'
        sigs = {}
        for n in list(vocab.macros) + list(vocab.envs):
            if ('\\' + n) in src or ('{' + n + '}') in src:
                sigs[n] = (vocab.macros.get(n) or vocab.envs.get(n))['sig']
        rec.violation(dict(case, source=src),
                      'parsed structure differs from the written one: %s | source %r | signatures %r'
                      % (mm, src, sigs), mech=mech)


def classify(case, msg, mech):
    if mech == 'K3':
        return 'comment-before-non-brace-argument'
    return None


# ---------------------------------------------------------------- workloads

def atoms_for_enum(vocab):
    """Reduced vocabulary: every macro of the vocabulary in every presence combination with minimal
    argument contents, plus one atom per other construct kind."""
    atoms = [('T', 'a'), ('T', '1'), ('G', [('T', 'x')]), ('G', []), ('MATH', '$', '$', [('T', 'x')]),
             ('MATH', '\\(', '\\)', [('T', 'x')]), ('MATH', '$$', '$$', [('T', 'x')]),
             ('MATH', '\\[', '\\]', []), ('C', 'c', '\n'), ('S', '~'), ('S', '--'), ('P', '\n\n')]
    for name, d in sorted(vocab.macros.items()):
        if d.get('hidden'):
            continue
        optional = [i for i, k in enumerate(d['sig']) if D.slot_opener(k) is not None or k == '[nospace']
        for present in itertools.product([False, True], repeat=len(optional)):
            pres = dict(zip(optional, present))
            for form in (['grp', 'tok'] if any(k in ('{', 'm') for k in d['sig']) else ['grp']):
                args = []
                for i, k in enumerate(d['sig']):
                    if i in pres and not pres[i]:
                        args.append(None)
                    elif k in ('*', 's'):
                        args.append(([], 'star'))
                    elif k[0] == 't':
                        args.append(([], 'mark', k[1]))
                    elif k in ('[', 'o', '[nospace'):
                        args.append(([], 'grp', '[', ']', [('T', 'o')]))
                    elif k in ('{', 'm'):
                        args.append(([], 'grp', '{', '}', [('T', 'm')]) if form == 'grp'
                                    else ([('W', ' ')], 'tok', 'z'))
                    elif k in ('AnyDelimited', 'AnyDelimitedOptional'):
                        args.append(([], 'grp', '(', ')', [('T', 'q')]))
                    elif k.startswith('e{'):
                        args.append(([], 'emb', [(k[2], 'tok', 'u')]))
                    elif k[0] in 'rd':
                        args.append(([], 'grp', k[1], k[2], [('T', 'q')]))
                    elif k[0] == 'v':
                        args.append(([], 'verb', '|', '|', 'v%'))
                atoms.append(('M', name, args))
    for name, d in sorted(vocab.envs.items()):
        args = []
        for k in d['sig']:
            if D.slot_opener(k) is not None:
                args.append(None)
            elif k in ('{', 'm'):
                args.append(([], 'grp', '{', '}', [('T', 'm')]))
            elif k == 'AnyDelimited':
                args.append(([], 'grp', '<', '>', [('T', 'q')]))
            elif k[0] == 'r':
                args.append(([], 'grp', k[1], k[2], [('T', 'q')]))
        if len(args) == len(d['sig']):
            atoms.append(('E', name, args, [('T', 'b')]))
    return atoms


SPECIAL_DEFAULT = [
    # the line-break macro does not take an optional argument after whitespace
    ([('M', '\\', [None, None]), ('W', ' '), ('T', '[2pt]'), ('T', 'x')], 'linebreak-space-bracket'),
    ([('M', '\\', [None, ([], 'grp', '[', ']', [('T', '2pt')])]), ('T', 'x')], 'linebreak-bracket'),
    ([('M', '\\', [([], 'star'), ([], 'grp', '[', ']', [('T', '2pt')])])], 'linebreak-star-bracket'),
    ([('M', 'section', [([('W', ' ')], 'star'), ([('W', '\n')], 'grp', '[', ']', [('T', 'o')]),
                        ([('W', ' ')], 'grp', '{', '}', [('T', 't')])])], 'section-spaced'),
    ([('MATH', '$', '$', [('T', 'a')]), ('MATH', '$', '$', [('T', 'b')])], 'dollar-dollar-inline'),
    ([('MATH', '$$', '$$', [('T', 'a')])], 'display-dollars'),
    ([('M', 'textbf', [([('W', ' '), ('C', 'c', '\n')], 'grp', '{', '}', [('T', 'x')])])], 'comment-before-brace-arg'),
    ([('M', 'sqrt', [([], 'grp', '[', ']', [('T', '3')]), ([], 'tok', 'x')])], 'sqrt-opt-tok'),
    ([('M', 'item', [None]), ('W', ' '), ('T', 'x'), ('M', 'item', [([], 'grp', '[', ']', [('T', 'a')])]), ('T', 'y')], 'items'),
]


def run_shard(desc, rec):
    import random
    rng = rng_for(desc)
    kind = desc['kind']
    if kind in ('default', 'custom'):
        vseed = None
        vocab = db = None
        for i in range(desc['n']):
            if kind == 'default':
                case = {'vocab': 'default'}
            else:
                if i % 40 == 0:
                    vseed = [rng.randrange(1 << 30), desc['ci'] * 101 + i // 40]
                case = {'vocab': 'custom', 'vseed': vseed}
            vocab, db = vocab_for(case)
            ast, src, bounds, redraws = D.gen_doc(rng, vocab, max_depth=desc['depth'])
            rec.monitor('redraws', redraws)
            case['ast'] = D.to_jsonable(ast)
            rec.case()
            slot_hist(ast, vocab, rec)
            if i % 61 == 0:
                rec.sample({'vocab': case['vocab'], 'source': src})
            check_case(case, rec)
    elif kind == 'enum':
        vseed = [12345 + desc.get('seed', 0), 3]
        for case0 in ({'vocab': 'default'}, {'vocab': 'custom', 'vseed': vseed}):
            vocab, db = vocab_for(case0)
            atoms = atoms_for_enum(vocab)
            if case0['vocab'] == 'default':
                # reduced: a representative subset of the ~90 macros
                keep = {'textbf', 'section', 'sqrt', 'frac', "'", 'item', '\\', 'cite', 'alpha', 'ensuremath',
                        'text', '&', 'hspace', 'itemize', 'equation', 'tabular', 'center', 'array'}
                atoms = [a for a in atoms if a[0] not in ('M', 'E') or a[1] in keep]
            rec.note_max('enum_atoms_' + case0['vocab'], len(atoms))
            L = desc['L']
            joins = ['', ' ', '\n']
            idx = 0
            for n in range(1, L + 1):
                for combo in itertools.product(range(len(atoms)), repeat=n):
                    idx += 1
                    if idx % desc['n'] != desc['k']:
                        continue
                    if n == 3 and desc['L'] == 3 and (idx // desc['n']) % 4 != 0:
                        continue        # length 3: every 4th triple per shard (deterministic thinning)
                    for j in (joins if n > 1 else ['']):
                        items = []
                        for ci, ai in enumerate(combo):
                            if ci and j:
                                items.append(('W', j))
                            items.append(atoms[ai])
                        ok = True
                        for a, b in zip(items, items[1:]):
                            if a[0] in ('W', 'P') and b[0] in ('W', 'P'):
                                ok = False
                            if a[0] == 'C' and b[0] in ('W', 'P'):
                                ok = False
                            if a[0] == 'T' and b[0] == 'T':
                                ok = False
                        if not ok:
                            continue
                        case = dict(case0, ast=D.to_jsonable(items))
                        rec.case()
                        rec.monitor('enumerated')
                        check_case(case, rec)
    elif kind == 'special':
        for ast, name in SPECIAL_DEFAULT:
            case = {'vocab': 'default', 'ast': D.to_jsonable(ast), 'special': name}
            rec.case()
            rec.monitor('special_cases')
            check_case(case, rec)
        # K3 witnesses: comment between a macro and a non-brace argument (custom context)
        vseed = [777, 0]
        vocab, db = vocab_for({'vocab': 'custom', 'vseed': vseed})
        for name, d in sorted(vocab.macros.items()):
            if d.get('hidden'):
                continue
            for i, k in enumerate(d['sig']):
                if k in ('{', 'm', 'v') or k == '[nospace':
                    continue
                args = []
                for j, kk in enumerate(d['sig']):
                    pre = [('C', 'c', '\n')] if j == i else []
                    if kk in ('*', 's'):
                        args.append((pre, 'star'))
                    elif kk[0] == 't':
                        args.append((pre, 'mark', kk[1]))
                    elif kk in ('[', 'o'):
                        args.append((pre, 'grp', '[', ']', [('T', 'o')]))
                    elif kk in ('{', 'm'):
                        args.append((pre, 'grp', '{', '}', [('T', 'm')]))
                    elif kk in ('AnyDelimited', 'AnyDelimitedOptional'):
                        args.append((pre, 'grp', '(', ')', [('T', 'q')]))
                    elif kk.startswith('e{'):
                        args.append((pre, 'emb', [(kk[2], 'tok', 'u')]))
                    elif kk[0] in 'rd':
                        args.append((pre, 'grp', kk[1], kk[2], [('T', 'q')]))
                    elif kk[0] == 'v':
                        args.append(([], 'verb', '|', '|', 'v'))
                    elif kk == '[nospace':
                        args.append(None)
                case = {'vocab': 'custom', 'vseed': vseed, 'ast': D.to_jsonable([('M', name, args), ('T', 'x')]),
                        'special': 'K3-witness'}
                rec.case()
                rec.monitor('k3_witness_checked')
                check_case(case, rec)


LEVEL_TEXT = ('Exploration with ground truth by construction: thousands of grammar-generated well-formed documents '
              '(default context and ~100 generated custom contexts per run covering all ten argument-slot kinds in '
              'every position, present and absent, group and single-token forms) are parsed strictly by the real '
              'parser and the returned tree is compared node by node with the structure the generator wrote; small '
              'derivations are enumerated systematically. A parser has no finite state space to model-check, so '
              'observed agreement over a structured, coverage-measured input space is the achievable level.')
LEVEL_NOTE = ('Trusted: the generator/renderer in vpl/gen/doc.py (its ambiguity rules re-draw rather than patch), the '
              'hand-written default vocabulary (signatures from LaTeX documentation), and the comparison in '
              'doc.same(). Known finding K3 (comment before a non-brace argument) is matched by a structural '
              'classifier that additionally requires the document to compare equal once those comments are removed.')
TECHNIQUE = 'runtime monitoring: ground-truth oracle over grammar-generated documents parsed by the real strict parser (default + generated custom contexts), systematic small derivations'
