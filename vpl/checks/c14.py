"""C14 - context database lookups follow category order under every build history.

Refuting events, for any database reachable in a history of add_context_category
(append / prepend / insert_before / insert_after, named and auto-named
categories, existing and missing anchors), set_unknown_*_spec, freeze,
filtered_context and extended_with:
  * get_*_spec(name) is not the definition of the first category (in the order
    reported by categories()) that defines the name, or not the configured
    unknown spec when none does;
  * categories() is not the order the documented placement rules give;
  * test_for_specials is not the longest match (ties: earliest category);
  * an operation on a derived database changes an answer of the database it was
    derived from; deriving from a derived database fails;
  * a frozen database accepts a modification.

Oracle: public-API self-consistency (categories() + iter_*_specs(categories=[c])),
a 20-line model of the documented placement rules, and answer snapshots of every
database taken before each operation and re-checked after it.
"""
import itertools
from ..shard import rng_for
from ..rec import Recorder
from pylatexenc.macrospec import LatexContextDb, MacroSpec, EnvironmentSpec, SpecialsSpec, ParsingStateDeltaExtendLatexContextDb
from pylatexenc.latexnodes import ParsingState

PROPERTY = 'C14'
LEVEL = 'exploration'
RULE = ('all histories of length <= 3 (quick) / 4 (thorough, thinned) over a 46-operation alphabet, plus random '
        'histories of length <= 9, over 3 macro / 2 environment / 5 specials names and categories A, B, C, auto; after '
        'every step every reachable database is queried for every name and every probe position. Non-trivial = '
        'history that created >= 2 categories in some database and used a placement other than append or a '
        'derivation; distinct = distinct history.')
EXHAUSTIVE = {'quick': False, 'thorough': False}
ASSUMPTIONS = ['spec objects are compared by identity', 'documented placement rules: prepend -> first; insert_before=X '
               '-> immediately before X, or first if X is unknown; insert_after=X -> immediately after X, or last if X '
               'is unknown; extended_with -> new category first (an auto-named leading category may be reused)']

MN = ['a', 'b', 'c']
EN = ['e', 'f']
SN = ['~', '~~', '!', '!~', '~!~']
PROBES = ['~~!~', '!~!', '~!~~', 'x~', '']
CONTENTS = [
    (['a'], [], ['~']),
    (['a', 'b'], ['e'], ['~~', '!']),
    (['c'], ['f', 'e'], ['!~', '~!~', '~']),
    ([], [], []),
]


def op_alphabet():
    ops = []
    for cat in ['A', 'B', None]:
        for place in [None, ['prepend'], ['before', 'A'], ['after', 'A'], ['before', 'Z'], ['after', 'Z'], ['after', 'B']]:
            for ci in (0, 1):
                ops.append(['add', cat, place, ci])
    ops.append(['unk', 'm'])
    ops.append(['unk', 'e'])
    ops.append(['unk', 's'])
    ops.append(['extend', None, 3, 'unk'])
    ops.append(['freeze'])
    ops.append(['filter', {}])
    ops.append(['filter', {'keep_categories': ['A', 'C']}])
    ops.append(['filter', {'exclude_categories': ['A'], 'keep_which': ['macros', 'specials']}])
    ops.append(['extend', 'X', 2])
    ops.append(['extend', None, 1])
    # extension through a parsing-state delta object; the same delta object (per number) is applied wherever the op recurs
    ops.append(['extend', None, 1, 'delta', 0])
    ops.append(['extend', None, 2, 'delta', 1])
    return ops


OPS = op_alphabet()


def plan(tier, seed):
    if tier == 'quick':
        sh = [{'kind': 'enum', 'L': 3, 'k': k, 'n': 8, 'thin': 2, 'name': 'enum%d' % k} for k in range(8)]
        sh += [{'kind': 'random', 'count': 2500, 'name': 'rand%d' % k} for k in range(8)]
        return sh
    sh = [{'kind': 'enum', 'L': 4, 'k': k, 'n': 16, 'thin': 7, 'name': 'enum%d' % k} for k in range(16)]
    sh += [{'kind': 'random', 'count': 40000, 'name': 'rand%d' % k} for k in range(16)]
    return sh


def floors(tier):
    return {'evaluations': 20000, 'distinct_nontrivial': 5000, 'lookups_checked': 500000,
            'parent_snapshots_rechecked': 20000, 'frozen_refusals': 1000, 'derived_from_derived': 500,
            'histkeys:placement': 7, 'filtered_contents_compared': 5000,
            'extensions_through_delta_objects': 3000, 'delta_objects_reapplied': 3000}


def setup(rec):
    pass


class H(object):
    """One database in a history with the harness-side knowledge about its *inputs*."""
    def __init__(self, db, order, unknown, parent=None):
        self.db = db
        self.order = order          # model of the category order (documented placement rules)
        self.unknown = unknown      # {'m':..,'e':..,'s':..} expected unknown specs (as set by the history)
        self.parent = parent


def mk(kind, name, tag):
    if kind == 'm':
        o = MacroSpec(name)
    elif kind == 'e':
        o = EnvironmentSpec(name)
    else:
        o = SpecialsSpec(name)
    o._vpl_tag = tag
    return o


def first_def(db, kind, name):
    it = {'m': db.iter_macro_specs, 'e': db.iter_environment_specs, 's': db.iter_specials_specs}[kind]
    attr = {'m': 'macroname', 'e': 'environmentname', 's': 'specials_chars'}[kind]
    for c in db.categories():
        for sp in it(categories=[c]):
            if getattr(sp, attr) == name:
                return sp
    return None


def answers(db):
    d = {}
    for n in MN:
        d['m' + n] = db.get_macro_spec(n)
    for n in EN:
        d['e' + n] = db.get_environment_spec(n)
    for n in SN:
        d['s' + n] = db.get_specials_spec(n)
    for s in PROBES:
        for pos in range(len(s) + 1):
            d['t%s@%d' % (s, pos)] = db.test_for_specials(s, pos)
    d['cats'] = tuple(db.categories())
    return d


def check_db(h, rec):
    db = h.db
    cats = db.categories()
    if len(set(cats)) != len(cats):
        return 'categories() reports duplicates: %r' % (cats,)
    # model of placement
    if h.order is not None and list(cats) != list(h.order):
        return 'categories() is %r but the documented placement rules give %r' % (cats, h.order)
    for kind, names, getter in (('m', MN, db.get_macro_spec), ('e', EN, db.get_environment_spec),
                                ('s', SN, db.get_specials_spec)):
        for n in names:
            rec.monitor('lookups_checked')
            want = first_def(db, kind, n)
            got = getter(n)
            if want is None:
                if got is not h.unknown[kind]:
                    return 'lookup %s %r: nowhere defined, expected the configured unknown spec %r, got %r' % (
                        kind, n, h.unknown[kind], got)
                try:
                    getter(n, raise_if_not_found=True)
                    return 'lookup %s %r with raise_if_not_found=True did not raise' % (kind, n)
                except KeyError:
                    pass
            elif got is not want:
                return 'lookup %s %r returns the definition tagged %r, the first category defining it (%r) holds %r' % (
                    kind, n, getattr(got, '_vpl_tag', got), cats, getattr(want, '_vpl_tag', None))
    # iter_*_specs() without argument = the concatenation over the categories in order
    for it in (db.iter_macro_specs, db.iter_environment_specs, db.iter_specials_specs):
        whole = list(it())
        parts = [sp for c in cats for sp in it(categories=[c])]
        rec.monitor('lookups_checked')
        if len(whole) != len(parts) or any(a is not b for a, b in zip(whole, parts)):
            return '%s() does not yield the per-category sequences concatenated in categories() order' % it.__name__
    for s in PROBES:
        for pos in range(len(s) + 1):
            best = None
            for c in cats:
                for sp in db.iter_specials_specs(categories=[c]):
                    if s.startswith(sp.specials_chars, pos) and sp.specials_chars and \
                            (best is None or len(sp.specials_chars) > len(best.specials_chars)):
                        best = sp
            rec.monitor('lookups_checked')
            got = db.test_for_specials(s, pos)
            if got is not best:
                return 'test_for_specials(%r, %d) returns %r, longest match is %r' % (
                    s, pos, getattr(got, 'specials_chars', None), getattr(best, 'specials_chars', None))
    return None


def model_add(order, name, place):
    order = list(order)
    if place is None:
        order.append(name)
    elif place[0] == 'prepend':
        order.insert(0, name)
    elif place[0] == 'before':
        i = order.index(place[1]) if place[1] in order else 0
        order.insert(i, name)
    elif place[0] == 'after':
        i = order.index(place[1]) + 1 if place[1] in order else len(order)
        order.insert(i, name)
    return order


def run_history(ops, rec, targets):
    """Execute a history.  Returns error string or None."""
    hs = [H(LatexContextDb(), [], {'m': None, 'e': None, 's': None})]
    tag = 0
    deltas = {}
    used_placement = False
    derived = False
    for step, (op, ti) in enumerate(zip(ops, targets)):
        h = hs[ti % len(hs)]
        db = h.db
        tag += 1
        # snapshot of every database before the operation
        snaps = [(x, answers(x.db)) for x in hs]
        affected = h
        kind = op[0]
        if kind == 'add':
            _, cat, place, ci = op
            ms, es, ss = CONTENTS[ci]
            kw = {}
            if place is not None:
                rec.hist('placement', place[0] + ':' + (place[1] if len(place) > 1 else ''))
                used_placement = True
                if place[0] == 'prepend':
                    kw['prepend'] = True
                elif place[0] == 'before':
                    kw['insert_before'] = place[1]
                else:
                    kw['insert_after'] = place[1]
            else:
                rec.hist('placement', 'append')
            was_frozen = db.frozen
            before = list(db.categories())
            try:
                db.add_context_category(cat, macros=[mk('m', n, tag) for n in ms],
                                        environments=[mk('e', n, tag) for n in es],
                                        specials=[mk('s', n, tag) for n in ss], **kw)
                if was_frozen:
                    return 'step %d: a frozen database accepted add_context_category' % step
                after = db.categories()
                new = [c for c in after if c not in before]
                if len(new) != 1 or (cat is not None and new[0] != cat):
                    return 'step %d: add_context_category(%r) changed categories %r -> %r' % (step, cat, before, after)
                h.order = model_add(h.order, new[0], place)
            except RuntimeError:
                if not was_frozen:
                    return 'step %d: add_context_category raised RuntimeError on an unfrozen database' % step
                rec.monitor('frozen_refusals')
                affected = None
            except ValueError:
                if was_frozen or cat is None or cat not in before:
                    return 'step %d: add_context_category(%r) raised ValueError (categories %r)' % (step, cat, before)
                affected = None     # duplicate category name: documented refusal
        elif kind == 'unk':
            which = op[1]
            sp = mk(which, '', tag)
            setter = {'m': db.set_unknown_macro_spec, 'e': db.set_unknown_environment_spec,
                      's': db.set_unknown_specials_spec}[which]
            was_frozen = db.frozen
            try:
                setter(sp)
                if was_frozen:
                    return 'step %d: a frozen database accepted %s' % (step, setter.__name__)
                h.unknown = dict(h.unknown, **{which: sp})
            except RuntimeError:
                if not was_frozen:
                    return 'step %d: %s raised on an unfrozen database' % (step, setter.__name__)
                rec.monitor('frozen_refusals')
                affected = None
        elif kind == 'freeze':
            db.freeze()
            affected = None
        elif kind == 'filter':
            kw = op[1]
            try:
                # the deprecated spelling filter_context() is documented as the same method
                ndb = (db.filter_context if step % 3 == 2 else db.filtered_context)(**kw)
            except Exception as e:
                return 'step %d: filtered_context(%r) raised %s: %s (categories %r)' % (
                    step, kw, type(e).__name__, e, db.categories())
            if h.parent is not None:
                rec.monitor('derived_from_derived')
            order = [c for c in h.order if (not kw.get('keep_categories') or c in kw['keep_categories'])
                     and not (kw.get('exclude_categories') and c in kw['exclude_categories'])]
            nh = H(ndb, order, dict(h.unknown), parent=h)
            # filtered copies keep only the requested kinds
            keep = kw.get('keep_which')
            if keep:
                for knd, which, it in (('m', 'macros', ndb.iter_macro_specs), ('e', 'environments', ndb.iter_environment_specs),
                                       ('s', 'specials', ndb.iter_specials_specs)):
                    if which not in keep and list(it()):
                        return 'step %d: filtered_context(keep_which=%r) kept %s' % (step, keep, which)
            # ... and all of the requested kinds (every kind without keep_which), category by category, as the parent has them
            for knd, which in (('m', 'macros'), ('e', 'environments'), ('s', 'specials')):
                if keep and which not in keep:
                    continue
                attr = {'m': 'macroname', 'e': 'environmentname', 's': 'specials_chars'}[knd]
                for c in order:
                    pit = {'m': db.iter_macro_specs, 'e': db.iter_environment_specs, 's': db.iter_specials_specs}[knd]
                    nit = {'m': ndb.iter_macro_specs, 'e': ndb.iter_environment_specs, 's': ndb.iter_specials_specs}[knd]
                    want = sorted((getattr(sp, attr), getattr(sp, '_vpl_tag', None)) for sp in pit(categories=[c]))
                    got = sorted((getattr(sp, attr), getattr(sp, '_vpl_tag', None)) for sp in nit(categories=[c]))
                    rec.monitor('filtered_contents_compared')
                    if want != got:
                        return 'step %d: filtered_context(%r): category %r holds %s %r in the result, %r in the source' % (
                            step, kw, c, which, got, want)
            hs.append(nh)
            affected = None
            derived = True
        elif kind == 'extend':
            cat, ci = op[1], op[2]
            with_unk = len(op) == 4
            via_delta = len(op) > 4
            ms, es, ss = CONTENTS[ci]
            if via_delta:
                if op[4] not in deltas:
                    deltas[op[4]] = ParsingStateDeltaExtendLatexContextDb(extend_latex_context=dict(
                        macros=[mk('m', n, tag) for n in ms], environments=[mk('e', n, tag) for n in es],
                        specials=[mk('s', n, tag) for n in ss]))
                else:
                    rec.monitor('delta_objects_reapplied')
                the_delta = deltas[op[4]]
            if not db.frozen:
                try:
                    if via_delta:
                        the_delta.get_updated_parsing_state(ParsingState(s='', latex_context=db), None)
                    else:
                        db.extended_with(cat, macros=[mk('m', n, tag) for n in ms])
                    return 'step %d: extended_with accepted on an unfrozen database' % step
                except RuntimeError:
                    pass
                except ValueError:
                    if cat is None or cat not in db.categories():
                        return 'step %d: extended_with(%r) raised ValueError (categories %r)' % (step, cat, db.categories())
                affected = None
            else:
                before = list(db.categories())
                xkw = {}
                newunk = dict(h.unknown)
                if with_unk:
                    newunk = {'m': mk('m', '', tag), 'e': mk('e', '', tag), 's': h.unknown['s']}
                    xkw = {'unknown_macro_spec': newunk['m'], 'unknown_environment_spec': newunk['e']}
                try:
                    if via_delta:
                        rec.monitor('extensions_through_delta_objects')
                        ndb = the_delta.get_updated_parsing_state(ParsingState(s='', latex_context=db), None).latex_context
                        if ndb is db:
                            return 'step %d: the context-extending delta returned the database it was applied to' % step
                    else:
                        ndb = db.extended_with(cat, macros=[mk('m', n, tag) for n in ms],
                                               environments=[mk('e', n, tag) for n in es],
                                               specials=[mk('s', n, tag) for n in ss], **xkw)
                except ValueError:
                    if cat is None or cat not in before:
                        return 'step %d: extended_with(%r) raised ValueError (categories %r)' % (step, cat, before)
                    ndb = None
                except Exception as e:
                    return 'step %d: extended_with(%r) raised %s: %s' % (step, cat, type(e).__name__, e)
                if ndb is not None:
                    if h.parent is not None:
                        rec.monitor('derived_from_derived')
                    after = ndb.categories()
                    new = [c for c in after if c not in before]
                    if cat is not None:
                        order = [cat] + list(h.order)
                    elif new:
                        order = [new[0]] + list(h.order)
                    else:
                        order = list(h.order)       # merged into the leading auto-named category
                    if not ndb.frozen:
                        return 'step %d: database returned by extended_with is not frozen' % step
                    hs.append(H(ndb, order, newunk, parent=h))
                    derived = True
                affected = None
        # every database must be self-consistent; all but the one operated on must be unchanged
        for x, snap in snaps:
            if x is affected:
                continue
            now = answers(x.db)
            rec.monitor('parent_snapshots_rechecked')
            for k in snap:
                if snap[k] is not now[k] and snap[k] != now[k]:
                    return 'step %d (%r on db %d): answer %r of database %d changed from %r to %r' % (
                        step, op, ti % len(hs), k, hs.index(x), _tagof(snap[k]), _tagof(now[k]))
        for i, x in enumerate(hs):
            err = check_db(x, rec)
            if err:
                return 'step %d (%r): database %d: %s' % (step, op, i, err)
    return None, (used_placement or derived), max(len(x.db.categories()) for x in hs)


def _tagof(x):
    return getattr(x, '_vpl_tag', x)


def check_case(case, rec):
    ops = case['ops']
    targets = case.get('targets') or [len(ops) * 7 + i for i in range(len(ops))]
    try:
        res = run_history(ops, rec, targets)
    except Exception as e:
        import traceback
        res = 'history raised %s: %s [%s]' % (type(e).__name__, e, traceback.format_exc().splitlines()[-3].strip())
    if isinstance(res, tuple):
        _, interesting, ncat = res
        if interesting and ncat >= 2:
            rec.nontrivial(case)
        return
    rec.violation(case, '%s | history %r targets %r' % (res, ops, targets), mech=res.split(':')[0][:30])


def shrink(v):
    case = v['case']
    ops, targets = list(case['ops']), list(case.get('targets') or [])
    changed = True
    while changed and len(ops) > 1:
        changed = False
        for i in range(len(ops)):
            o2 = ops[:i] + ops[i + 1:]
            t2 = (targets[:i] + targets[i + 1:]) if targets else None
            r = Recorder()
            check_case({'ops': o2, 'targets': t2}, r)
            if r.n_violations:
                ops, targets = o2, (t2 or [])
                changed = True
                break
    r = Recorder()
    check_case({'ops': ops, 'targets': targets or None}, r)
    return r.violations[0] if r.violations else v


def run_shard(desc, rec):
    rng = rng_for(desc)
    if desc['kind'] == 'enum':
        idx = 0
        for L in range(1, desc['L'] + 1):
            for combo in itertools.product(range(len(OPS)), repeat=L):
                idx += 1
                if idx % desc['n'] != desc['k']:
                    continue
                if L >= 3 and (idx // desc['n']) % desc['thin'] != 0:
                    continue
                ops = [OPS[i] for i in combo]
                # target: always the most recently created database (index -1) or the root
                for tmode in (0, 1):
                    targets = [0 if tmode == 0 else 10 ** 6 - 1] * L
                    if tmode == 1:
                        targets = list(range(L))        # spreads over the databases created so far
                    rec.case()
                    check_case({'ops': ops, 'targets': targets}, rec)
    else:
        cats = ['A', 'B', 'C', None]
        for i in range(desc['count']):
            L = rng.randint(2, 9)
            ops = []
            for _ in range(L):
                r = rng.random()
                if r < 0.5:
                    place = rng.choice([None, ['prepend'], ['before', rng.choice('ABCZ')], ['after', rng.choice('ABCZ')]])
                    ops.append(['add', rng.choice(cats), place, rng.randrange(len(CONTENTS))])
                elif r < 0.58:
                    ops.append(['unk', rng.choice('mes')])
                elif r < 0.72:
                    ops.append(['freeze'])
                elif r < 0.86:
                    kw = {}
                    if rng.random() < .5:
                        kw['keep_categories'] = rng.sample(['A', 'B', 'C'], 2)
                    if rng.random() < .4:
                        kw['exclude_categories'] = rng.sample(['A', 'B', 'C'], 1)
                    if rng.random() < .4:
                        kw['keep_which'] = rng.sample(['macros', 'environments', 'specials'], rng.randint(1, 2))
                    ops.append(['filter', kw])
                else:
                    e = ['extend', rng.choice(['X', 'Y', None, None]), rng.randrange(len(CONTENTS))]
                    if rng.random() < 0.25:
                        e.append('unk')
                    ops.append(e)
            targets = [rng.randrange(100) for _ in range(L)]
            if i % 8 == 0:
                # one delta object applied to several different frozen databases: build, freeze, derive, then the same
                # extension wherever the random targets point (original, filtered copy, earlier extension)
                d = ['extend', None, rng.randrange(len(CONTENTS)), 'delta', rng.randrange(2)]
                ops = [['add', 'A', None, rng.randrange(len(CONTENTS))], ['add', rng.choice(['B', None]), None, rng.randrange(len(CONTENTS))],
                       ['freeze']] + ops[:3] + [list(d), ['filter', {'exclude_categories': ['A']}], list(d), list(d)] + \
                      [rng.choice(ops) for _ in range(2)] + [list(d)]
                targets = [0, 0, 0] + [rng.randrange(100) for _ in range(len(ops) - 3)]
            rec.case()
            case = {'ops': ops, 'targets': targets}
            if i % 400 == 0:
                rec.sample(case)
            check_case(case, rec)


LEVEL_TEXT = ('Exploration of build histories with a public-API oracle: all short histories over a 54-operation alphabet '
              'and tens of thousands of random histories are executed on the real LatexContextDb; after every step '
              'every reachable database is queried for every name/probe and compared with (i) the first definition in '
              'categories() order found through iter_*_specs(categories=[c]), (ii) a model of the documented placement '
              'rules, (iii) answer snapshots of all other databases taken before the step. The database is a small '
              'deterministic state machine, so bounded-exhaustive histories give strong evidence.')
LEVEL_NOTE = ('Trusted: the placement model (20 lines, from the docstring of add_context_category / extended_with) and '
              'identity comparison of spec objects. No private attribute of LatexContextDb is read.')
TECHNIQUE = 'runtime monitoring: history checker over bounded-exhaustive and random build histories with public-API self-consistency, placement model and parent-answer snapshots'
