"""C16 - the pylatexenc-2 compatible API gives the same results as the new parsers.

Refuting events: a legacy entry point (get_token, get_latex_braced_group, get_latex_maybe_optional_arg,
get_latex_expression, get_latex_environment, get_latex_nodes with stop_upon_* / read_max_nodes) returns
nodes / positions / lengths different from the equivalent pylatexenc-3 parser call built from the
documented correspondence, or fails when that succeeds (or vice versa); a macro / environment
specification given through a legacy spelling (args_parser=<string>, args_parser=MacroStandardArgsParser,
positional MacroStandardArgsParser, std_macro / std_environment forms) parses a document differently from
MacroSpec(name, <argument string>); the nodeoptarg / nodeargs views disagree with argnlist.

Oracle: differential execution in one process; documented legacy conventions are normalised, not
alarmed on (see ASSUMPTIONS).
"""
import itertools
from ..shard import rng_for
from .. import work
from ..mon import canon
from ..rec import Recorder
from pylatexenc.latexwalker import LatexWalker
from pylatexenc.latexnodes import (
    LatexWalkerParseError, LatexWalkerEndOfStream, LatexTokenReader, nodes as N, parsers as P,
)
from pylatexenc.macrospec import (
    MacroSpec, EnvironmentSpec, LatexContextDb, MacroStandardArgsParser, std_macro, std_environment,
)

PROPERTY = 'C16'
LEVEL = 'exploration'
RULE = ('part A: token soups and generated documents x every start position x legacy call variants (brace types, '
        'include_brace_chars, environments on/off, strict_braces, stop_upon_closing_brace / end_environment / '
        'closing_mathmode, read_max_nodes 1..3), strict and tolerant, each compared with the equivalent new-parser call; '
        'part B: every argument string over {*, [, {} up to length 4 (121 strings) given through 7 macro and 4 '
        'environment spellings, each parsing generated call strings in both modes. Non-trivial = comparison where the '
        'reference succeeded with a non-empty result; distinct = distinct (method, string, position, variant).')
EXHAUSTIVE = {'quick': False, 'thorough': False}
ASSUMPTIONS = [
    'get_latex_expression: a macro/specials/environment read as a single token has nodeargd=None (documented legacy '
    'convention); with strict_braces falsy an unexpected closing brace yields an empty result instead of an error',
    'MacroStandardArgsParser reads mandatory arguments with strict_braces=False: for that spelling failure-equivalence is '
    'only demanded when the new parser fails for another reason than a closing brace where an argument is expected',
    'known finding K4: legacy MacroStandardArgsParser does not accept whitespace before an optional [ argument that is not '
    'the first slot; the generator writes no whitespace there for that spelling (witness run separately)',
    'a node-list stop condition that only becomes true at the final flush lets an internal exception escape from both '
    'APIs alike: "both raise the same exception type" counts as agreement',
]
SHARD_TIMEOUT = {'quick': 900, 'thorough': 3600}

ATOMS = ['a', 'b', ' ', '\n', '\n\n', '{', '}', '[', ']', '(', ')', '<', '>', '$', '$$', '\\(', '\\)', '%c\n', '~', '{x}',
         '[y]', '\\alpha ', '\\textbf', '\\textbf{q}', '\\begin{itemize}', '\\end{itemize}', '\\begin{a}b\\end{a}',
         '\\item', '\\\\', '\\frac', 'x', '\\verb|x|', '--', '&', '\\[', '\\]']


def plan(tier, seed):
    if tier == 'quick':
        return [{'kind': 'walker', 'count': 260, 'name': 'walker%d' % k} for k in range(10)] + \
               [{'kind': 'specs', 'k': k, 'n': 6, 'calls': 14, 'name': 'specs%d' % k} for k in range(6)]
    return [{'kind': 'walker', 'count': 4000, 'name': 'walker%d' % k} for k in range(20)] + \
           [{'kind': 'specs', 'k': k, 'n': 12, 'calls': 120, 'name': 'specs%d' % k} for k in range(12)]


def floors(tier):
    return {'evaluations': 2000, 'distinct_nontrivial': 20000, 'legacy_calls_compared': 100000,
            'spelling_parses_compared': 15000, 'args_math_mode_parses_compared': 2000, 'histkeys:method': 11, 'histkeys:spelling': 8,
            'histkeys:argspec': 121, 'k4_witness_checked': 1, 'optarg_views_checked': 2000,
            'histkeys:env_is_math_mode': 3, 'histkeys:get_token_parsing_state': 7, 'hist:call_context:bracket': 300, 'hist:call_context:math': 100}


def setup(rec):
    pass


def dump(n):
    if n is None:
        return None
    if isinstance(n, (N.LatexNodeList, list, tuple)):
        return [dump(x) for x in n]
    return canon.canon(n)


def run(f):
    try:
        return ('ok', f())
    except LatexWalkerParseError:
        return ('err', None)
    except LatexWalkerEndOfStream:
        return ('eos', None)
    except RecursionError:
        return ('recursion', None)
    except Exception as e:
        return ('EXC', type(e).__name__)


def tokt(tk, legacy=False):
    arg = tk.arg if isinstance(tk.arg, str) else ('spec', getattr(tk.arg, 'specials_chars', None))
    # the length: what the legacy API reports (the pylatexenc-2 attribute .len) against the extent of the
    # pylatexenc-3 token (pos_end - pos, where move_past_token() continues)
    ln = tk.len if legacy else tk.pos_end - tk.pos
    return (tk.tok, arg, tk.pos, tk.pos_end, tk.pre_space, getattr(tk, 'post_space', None), ln)


def strip_argd(d):
    """documented legacy convention of get_latex_expression"""
    if isinstance(d, dict) and d.get('k') in ('macro', 'specials', 'env'):
        d = dict(d)
        d['args'] = None
    return d


def compare_walker(s, pos, tol, rng, rec):
    """Yields (method, variant, error) for disagreements."""
    w = LatexWalker(s, tolerant_parsing=tol)
    out = []

    def cmp(method, variant, a, b, nontrivial=True):
        rec.monitor('legacy_calls_compared')
        rec.hist('method', method)
        if b[0] == 'ok' and b[1] not in (None, [], ()):
            rec.nontrivial((method, s, pos, str(variant), tol))
        if a != b:
            out.append((method, variant, 'legacy %s%r -> %s, new-parser equivalent -> %s' % (
                method, variant, _brief(a), _brief(b))))
    # ---- get_token
    ibc = rng.choice([None, [('[', ']')], [('<', '>'), ('(', ')')]])
    envs = rng.choice([True, False])
    # the caller's parsing state (parsing_state=): None, or a state derived from the walker's default one
    psvariant = rng.choice([None, None, {'in_math_mode': True, 'math_mode_delimiter': '$'}, {'in_math_mode': True},
                            {'macro_alpha_chars': 'ab@'}, {'enable_comments': False},
                            {'latex_group_delimiters': [('{', '}'), ('(', ')')]}, {'enable_math': False}])
    rec.hist('get_token_parsing_state', 'None' if psvariant is None else ','.join(sorted(psvariant)))

    def caller_state():
        return None if psvariant is None else w.make_parsing_state().sub_context(**psvariant)

    def new_tok():
        ps = caller_state() or w.make_parsing_state()
        kw = {}
        if ibc:
            kw['latex_group_delimiters'] = ps.latex_group_delimiters + ibc
        if not envs:
            kw['enable_environments'] = False
        if kw:
            ps = ps.sub_context(**kw)
        t = LatexTokenReader(s, tolerant_parsing=tol)
        t.move_to_pos_chars(pos)
        tk = t.peek_token(ps)
        t.move_past_token(tk)
        r = tokt(tk)
        # the reader continues at the end of the token's extent
        return r[:-1] + (t.cur_pos() - tk.pos,)

    def old_tok():
        kw = {}
        if psvariant is not None:
            kw['parsing_state'] = caller_state()
        return tokt(w.get_token(pos, include_brace_chars=ibc, environments=envs, **kw), legacy=True)
    cmp('get_token', (ibc, envs, psvariant), run(old_tok), run(new_tok))
    # ---- braced group
    # the four standard brace types, or any (opening, closing) pair -- also pairs that are not standard partners
    bt = rng.choice(['{', '[', '(', '<', ('<', '>'), ('(', ']'), ('[', ')'), ('<', '|'), ('{', ']'), ('|', '!'), ('(', ')')])
    rec.hist('brace_type', str(bt))

    def old_bg():
        n, p, l = w.get_latex_braced_group(pos, brace_type=bt)
        return (dump(n), p, l)

    def new_bg():
        d = {'{': ('{', '}'), '[': ('[', ']'), '(': ('(', ')'), '<': ('<', '>')}.get(bt, bt) if isinstance(bt, str) else tuple(bt)
        tr = w.make_token_reader(pos=pos)
        n, _ = w.parse_content(P.LatexDelimitedGroupParser(delimiters=d, allow_pre_space=True), token_reader=tr,
                               parsing_state=w.make_parsing_state())
        if n is None:
            return (None, pos, 0)
        return (dump(n), n.pos, n.pos_end - n.pos)
    a, b = run(old_bg), run(new_bg)
    if not (tol and (a[1] is None or b[1] is None or a[1][0] is None or b[1][0] is None) and a[0] == b[0] == 'ok' and a != b):
        cmp('get_latex_braced_group', bt, a, b)
    else:
        cmp('get_latex_braced_group', bt, a, b)
    # ---- optional arg

    def old_oa():
        r = w.get_latex_maybe_optional_arg(pos)
        if r is None:
            return None
        n, p, l = r
        return (dump(n), p, l)

    def new_oa():
        tr = w.make_token_reader(pos=pos)
        n, _ = w.parse_content(P.LatexOptionalSquareBracketsParser(), token_reader=tr, parsing_state=w.make_parsing_state())
        if n is None:
            return None
        return (dump(n), n.pos, n.pos_end - n.pos)
    cmp('get_latex_maybe_optional_arg', None, run(old_oa), run(new_oa))
    # explicit parsing_state (math mode) must reach the nodes of the optional argument / expression
    psm = w.make_parsing_state(in_math_mode=True, math_mode_delimiter='x')

    def old_oa_ps():
        r = w.get_latex_maybe_optional_arg(pos, parsing_state=psm)
        return None if r is None else (dump(r[0]), r[1], r[2])

    def new_oa_ps():
        tr = w.make_token_reader(pos=pos)
        n, _ = w.parse_content(P.LatexOptionalSquareBracketsParser(), token_reader=tr, parsing_state=psm)
        return None if n is None else (dump(n), n.pos, n.pos_end - n.pos)
    cmp('get_latex_maybe_optional_arg', 'parsing_state', run(old_oa_ps), run(new_oa_ps))
    # ---- expression
    sb = rng.choice([None, True, False])

    def old_ex():
        n, p, l = w.get_latex_expression(pos, strict_braces=sb)
        return (strip_argd(dump(n)), p, l)

    def new_ex():
        tr = w.make_token_reader(pos=pos)
        n, _ = w.parse_content(P.LatexExpressionParser(return_full_node_list=False,
                                                       single_token_requiring_arg_is_error=not tol,
                                                       allow_pre_space=True, allow_pre_comments=True),
                               token_reader=tr, parsing_state=w.make_parsing_state())
        if n is None:
            return None
        return (strip_argd(dump(n)), n.pos, n.pos_end - n.pos)
    a, b = run(old_ex), run(new_ex)
    rec.monitor('legacy_calls_compared')
    rec.hist('method', 'get_latex_expression')
    if b[0] == 'ok' and b[1] is not None:
        rec.nontrivial(('get_latex_expression', s, pos, sb, tol))
        if a != b:
            out.append(('get_latex_expression', sb, 'legacy get_latex_expression(strict_braces=%r) -> %s, '
                        'LatexExpressionParser -> %s' % (sb, _brief(a), _brief(b))))
    elif b[0] == 'ok' and b[1] is None:
        # tolerant recovery returned nothing: legacy documents a dummy empty chars node
        if a[0] != 'ok':
            out.append(('get_latex_expression', sb, 'legacy raised (%s) where the new parser recovered with no node' % a[0]))
    elif b[0] in ('err', 'eos'):
        lenient = (not sb) or tol
        if a[0] == 'EXC':
            out.append(('get_latex_expression', sb, 'legacy raised %s, new parser raised %s' % (a[1], b[0])))
        elif a[0] == 'ok' and not lenient:
            out.append(('get_latex_expression', sb, 'legacy returned %s where LatexExpressionParser fails (%s) and '
                        'strict_braces=True' % (_brief(a), b[0])))
    elif a[0] != b[0]:
        out.append(('get_latex_expression', sb, 'legacy %s vs new %s' % (_brief(a), _brief(b))))
    # ---- environment

    def old_env():
        n, p, l = w.get_latex_environment(pos, environmentname=None)
        return (dump(n), p, l)

    def new_env():
        tr = w.make_token_reader(pos=pos)
        nl, _ = w.parse_content(P.LatexSingleNodeParser(), token_reader=tr, parsing_state=w.make_parsing_state())
        if not nl or len(nl) != 1 or not nl[0].isNodeType(N.LatexEnvironmentNode):
            raise LatexWalkerParseError('not an environment')
        n = nl[0]
        return (dump(n), n.pos, n.pos_end - n.pos)
    a, b = run(old_env), run(new_env)
    if b[0] == 'ok' or a[0] == 'ok' or a[0] == 'EXC':
        cmp('get_latex_environment', None, a, b)
        if b[0] == 'ok':
            # environmentname= selects: same result for the right name, a parse error for another name
            realname = b[1][0]['name']
            a2 = run(lambda: (dump(w.get_latex_environment(pos, environmentname=realname)[0]),))
            if a2 != ('ok', (b[1][0],)):
                out.append(('get_latex_environment', realname, 'get_latex_environment(environmentname=%r) -> %s, expected the '
                            'environment node %s' % (realname, _brief(a2), _brief(b[1][0]))))
            a3 = run(lambda: w.get_latex_environment(pos, environmentname=realname + 'x')[1])
            if a3[0] != 'err':
                out.append(('get_latex_environment', realname + 'x', 'get_latex_environment(environmentname=%r) on environment %r '
                            '-> %s, expected a parse error' % (realname + 'x', realname, _brief(a3))))
            # an explicitly passed parsing state is honoured (math mode recorded on the node)
            psm = w.make_parsing_state(in_math_mode=True, math_mode_delimiter='x')
            a4 = run(lambda: dump(w.get_latex_environment(pos, parsing_state=psm)[0])['ps'])
            tr4 = w.make_token_reader(pos=pos)
            b4 = run(lambda: dump(w.parse_content(P.LatexSingleNodeParser(), token_reader=tr4, parsing_state=psm)[0][0])['ps'])
            if a4 != b4:
                out.append(('get_latex_environment', 'parsing_state', 'explicit parsing_state: legacy node records %s, new parser %s'
                            % (_brief(a4), _brief(b4))))
    else:
        rec.monitor('legacy_calls_compared')
        rec.hist('method', 'get_latex_environment')
    # ---- get_latex_nodes: read_max_nodes
    k = rng.choice([None, 1, 2, 3])

    def old_nodes():
        nl, p, l = w.get_latex_nodes(pos, read_max_nodes=k)
        return (dump(nl), p, l)

    def new_nodes():
        tr = w.make_token_reader(pos=pos)
        kw = {}
        if k is not None:
            kw['stop_nodelist_condition'] = lambda nl: len(nl) >= k
            kw['require_stop_condition_met'] = False     # reading fewer nodes than the maximum is fine
        nl, _ = w.parse_content(P.LatexGeneralNodesParser(**kw), token_reader=tr, parsing_state=w.make_parsing_state())
        if nl is None:
            return (None, None, None)
        return (dump(nl), nl.pos, tr.cur_pos() - nl.pos)
    cmp('get_latex_nodes(read_max_nodes)', k, run(old_nodes), run(new_nodes))
    # ---- get_latex_nodes: stop_upon_closing_brace vs. the braced group opened just before pos
    if pos > 0 and s[pos - 1] == '{' and (pos < 2 or s[pos - 2] != '\\'):
        op = s[pos - 1]
        cl = {'{': '}', '[': ']', '(': ')', '<': '>'}[op]

        def old_stop():
            nl, p, l = w.get_latex_nodes(pos, stop_upon_closing_brace=cl)
            return (dump(nl), l)

        def new_stop():
            tr = w.make_token_reader(pos=pos - 1)
            g, _ = w.parse_content(P.LatexDelimitedGroupParser(delimiters=(op, cl)), token_reader=tr,
                                   parsing_state=w.make_parsing_state())
            if g is None:
                raise LatexWalkerParseError('no group')
            return (dump(g.nodelist), g.pos_end - pos)
        a, b = run(old_stop), run(new_stop)
        if not tol:
            cmp('get_latex_nodes(stop_upon_closing_brace)', cl, a, b)
        elif b[0] == 'ok' and a[0] != 'ok':
            out.append(('get_latex_nodes(stop_upon_closing_brace)', cl, 'legacy %s vs group parser %s' % (_brief(a), _brief(b))))
    # ---- get_latex_nodes: the two documented spellings of stop_upon_closing_brace (closing character, or
    #      (open, close) pair) and the new-parser equivalent (stop at the closing token, delimiters added)
    op, cl = rng.choice([('{', '}'), ('[', ']'), ('(', ')'), ('<', '>')])

    def old_char():
        nl, p, l = w.get_latex_nodes(pos, stop_upon_closing_brace=cl)
        return (dump(nl), p, l)

    def old_pair():
        nl, p, l = w.get_latex_nodes(pos, stop_upon_closing_brace=(op, cl))
        return (dump(nl), p, l)

    def new_pair():
        ps = w.make_parsing_state()
        if (op, cl) not in ps.latex_group_delimiters:
            ps = ps.sub_context(latex_group_delimiters=list(ps.latex_group_delimiters) + [(op, cl)])
        tr = w.make_token_reader(pos=pos)
        par = P.LatexGeneralNodesParser(
            stop_token_condition=lambda t: t.tok == 'brace_close' and t.arg == cl,
            require_stop_condition_met=True,
            handle_stop_condition_token=lambda token, latex_walker, token_reader, parsing_state: token_reader.move_past_token(token))
        nl, _ = w.parse_content(par, token_reader=tr, parsing_state=ps)
        if nl is None:
            return (None, None, None)
        return (dump(nl), nl.pos, tr.cur_pos() - nl.pos)
    a1, a2, b = run(old_char), run(old_pair), run(new_pair)
    cmp('get_latex_nodes(stop_upon_closing_brace=char)', cl, a1, b)
    cmp('get_latex_nodes(stop_upon_closing_brace=pair)', (op, cl), a2, b)
    # ---- get_latex_nodes: stop_upon_end_environment / closing_mathmode vs. reimplementation from the docs
    which = rng.choice(['env', 'math'])
    if which == 'env':
        name = rng.choice(['a', 'itemize'])

        def old_e():
            nl, p, l = w.get_latex_nodes(pos, stop_upon_end_environment=name)
            return (dump(nl), p, l)

        def new_e():
            tr = w.make_token_reader(pos=pos)
            par = P.LatexGeneralNodesParser(
                stop_token_condition=lambda t: t.tok == 'end_environment' and t.arg == name,
                require_stop_condition_met=True,
                handle_stop_condition_token=lambda token, latex_walker, token_reader, parsing_state: token_reader.move_past_token(token))
            nl, _ = w.parse_content(par, token_reader=tr, parsing_state=w.make_parsing_state())
            if nl is None:
                return (None, None, None)
            return (dump(nl), nl.pos, tr.cur_pos() - nl.pos)
        cmp('get_latex_nodes(stop_upon_end_environment)', name, run(old_e), run(new_e))
    else:
        d = rng.choice(['$', '$$', '\\)', '\\]'])
        opener = {'$': '$', '$$': '$$', '\\)': '\\(', '\\]': '\\['}[d]

        def old_m():
            ps = w.make_parsing_state(in_math_mode=True, math_mode_delimiter=opener)
            nl, p, l = w.get_latex_nodes(pos, stop_upon_closing_mathmode=d, parsing_state=ps)
            return (dump(nl), p, l)

        def new_m():
            ps = w.make_parsing_state(in_math_mode=True, math_mode_delimiter=opener)
            tr = w.make_token_reader(pos=pos)
            par = P.LatexGeneralNodesParser(
                stop_token_condition=lambda t: t.tok in ('mathmode_inline', 'mathmode_display') and t.arg == d,
                require_stop_condition_met=True,
                handle_stop_condition_token=lambda token, latex_walker, token_reader, parsing_state: token_reader.move_past_token(token))
            nl, _ = w.parse_content(par, token_reader=tr, parsing_state=ps)
            if nl is None:
                return (None, None, None)
            return (dump(nl), nl.pos, tr.cur_pos() - nl.pos)
        cmp('get_latex_nodes(stop_upon_closing_mathmode)', d, run(old_m), run(new_m))
    return out


def _brief(x):
    s = repr(x)
    return s if len(s) < 260 else s[:260] + '...'


# ---------------------------------------------------------------- part B: spellings

def macro_spellings(argspec):
    sp = {
        'new': lambda: MacroSpec('foo', argspec),
        'args_parser=str': lambda: MacroSpec('foo', args_parser=argspec),
        'args_parser=MSAP': lambda: MacroSpec('foo', args_parser=MacroStandardArgsParser(argspec)),
        'positional-MSAP': lambda: MacroSpec('foo', MacroStandardArgsParser(argspec)),
        'std_macro(name,argspec)': lambda: std_macro('foo', argspec),
        'std_macro((name,argspec))': lambda: std_macro(('foo', argspec)),
        'std_macro(name,None,argspec)': lambda: std_macro('foo', None, argspec),
    }
    body = argspec[1:] if argspec.startswith('[') else argspec
    if all(c == '{' for c in body):
        sp['std_macro(name,optarg,numargs)'] = lambda: std_macro('foo', argspec.startswith('['), len(body))
    return sp


def env_spellings(argspec, mode=None):
    """Spellings of an environment E with the given argument string; mode = the legacy is_math_mode keyword
    (None: not given, False, True).  The pylatexenc-3 equivalent of is_math_mode=True is a body delta entering
    math mode; None and False both mean a text-mode body."""
    from pylatexenc.latexnodes import ParsingStateDeltaEnterMathMode
    kw = {} if mode is None else {'is_math_mode': mode}
    newkw = {'body_parsing_state_delta': ParsingStateDeltaEnterMathMode()} if mode else {}
    return {
        'env-new': lambda: EnvironmentSpec('E', argspec, **newkw),
        'env-args_parser=str': lambda: EnvironmentSpec('E', args_parser=argspec, **kw),
        'env-args_parser=MSAP': lambda: EnvironmentSpec('E', args_parser=MacroStandardArgsParser(argspec), **kw),
        'std_environment': lambda: std_environment('E', argspec, **kw),
        'std_macro(make_environment_spec)': lambda: std_macro('E', argspec, make_environment_spec=True,
                                                               environment_is_math_mode=mode),
        'env-new+is_math_mode': lambda: EnvironmentSpec('E', argspec, **kw),
    }


def norm_empty_args(d):
    """A macro read as a single-token argument has nodeargd=None in the legacy parser and an empty
    ParsedArguments in the new one (documented 'match behavior of pylatexenc 2'): both mean no arguments."""
    if isinstance(d, list):
        return [norm_empty_args(x) for x in d]
    if isinstance(d, dict):
        d = {k: norm_empty_args(v) for k, v in d.items()}
        if d.get('k') in ('macro', 'specials') and d.get('args') in (None, {'argnlist': []}, {'argnlist': None}):
            d['args'] = None
        return d
    return d


def parse_with_spec(s, macro, env, tol):
    db = LatexContextDb()
    db.add_context_category('x', macros=[macro, MacroSpec('alpha', ''), MacroSpec('bar', '[{')], environments=[env])
    db.set_unknown_macro_spec(MacroSpec(''))
    db.set_unknown_environment_spec(EnvironmentSpec(''))
    try:
        w = LatexWalker(s, latex_context=db, tolerant_parsing=tol)
        nl, _ = w.parse_content(P.LatexGeneralNodesParser())
        views = []
        for n in canon.walk(nl):
            if canon.kind(n) == 'macro' and n.macroname == 'foo' and n.nodeargd is not None:
                views.append((dump(n.nodeoptarg), dump(n.nodeargs), dump(n.nodeargd.argnlist)))
        return ('ok', norm_empty_args(dump(nl)), views)
    except LatexWalkerParseError as e:
        return ('err', str(getattr(e, 'msg', ''))[:80], None)
    except RecursionError:
        return ('recursion', None, None)
    except Exception as e:
        return ('EXC', type(e).__name__ + ':' + str(e)[:60], None)


def gen_call(rng, argspec, wellformed, legacy_safe, is_env=False):
    """A call string for \\foo (or the argument part of an environment) with the given argument string.
    legacy_safe: no whitespace before an optional [ argument unless it directly follows the macro name
    (known finding K4: the legacy argument parser then reads it as absent)."""
    out = '\\foo'
    emitted = False
    for i, c in enumerate(argspec):
        ws = rng.choice(['', '', ' ', '\n'])
        if legacy_safe and c == '[' and (emitted or is_env):
            ws = ''
        if c == '*':
            if rng.random() < 0.5:
                out += ws + '*'
                emitted = True
        elif c == '[':
            if rng.random() < 0.5:
                out += ws + '[' + rng.choice(['o', 'p q', '{]}', '\\alpha', '']) + ']'
                emitted = True
        else:
            r = rng.random()
            if wellformed or r < 0.85:
                form = rng.choice(['{a}', '{b c}', '{}', ' x', '\\alpha', '{{z}}', '{$y$}'])
                if form[0] != '{' and out[-1].isalpha() and form[0].isalpha():
                    form = ' ' + form
                out += ws + form
                emitted = True
            else:
                out += rng.choice(['', '}', '%c\n'])
    # ... followed by nothing, text, further would-be arguments, or only blanks up to the end of the input
    out += rng.choice(['', ' tail', '{t}', '[u]', '*', '\n\nnext', '}', ' ', '\n'] if not wellformed
                      else ['', ' tail', '.', '\n\nnext', ' ', '\n', ' \t'])
    return out


def check_specs(argspec, calls, rng, rec):
    errs = []
    rec.hist('argspec', argspec or '(empty)')
    msp = macro_spellings(argspec)
    for ci in range(calls):
        emode = (None, False, True)[(ci // 4) % 3]
        esp = env_spellings(argspec, emode)
        rec.hist('env_is_math_mode', str(emode))
        wellformed = ci % 3 != 0
        s = gen_call(rng, argspec, wellformed, legacy_safe=True)
        # the call directly inside a bracket group (whose contents state carries the extra group delimiters while the
        # call's arguments get the outer state), a braced group, or a formula
        wrap = ('none', 'bracket', 'none', 'brace', 'none', 'math', 'bracket')[ci % 7]
        rec.hist('call_context', wrap)
        if wrap == 'bracket':
            s = '\\bar[x' + s + ' y]{z}'
        elif wrap == 'brace':
            s = '{x' + s + '}'
        elif wrap == 'math':
            s = '$' + s + '$'
        if ci % 4 == 0:
            s = s + ' \\begin{E}' + gen_call(rng, argspec, True, True, is_env=True)[4:] + ' body \\end{E}'
        for tol in (False, True):
            ref = None
            for name, mk in list(msp.items()):
                env = esp['env-new']() if 'MSAP' not in name else esp['env-args_parser=MSAP']()
                if name == 'args_parser=str':
                    env = esp['env-args_parser=str']()
                if name.startswith('std_macro'):
                    env = esp['std_environment']() if 'numargs' not in name else esp['std_macro(make_environment_spec)']()
                if name == 'std_macro((name,argspec))':
                    env = esp['env-new+is_math_mode']()
                got = parse_with_spec(s, mk(), env, tol)
                rec.monitor('spelling_parses_compared')
                rec.hist('spelling', name)
                if name == 'new':
                    ref = got
                    if got[0] == 'ok':
                        rec.nontrivial(('spec', argspec, s, tol))
                        # legacy views
                        for (optarg, args, argnlist) in got[2]:
                            rec.monitor('optarg_views_checked')
                            body = argspec.lstrip('*')
                            nskip = len(argspec) - len(body)
                            if body[:1] == '[' and all(c == '{' for c in body[1:]):
                                want = (argnlist[nskip], argnlist[nskip + 1:])
                            else:
                                want = (None, argnlist)
                            if (optarg, args) != want:
                                errs.append(('views', s, 'nodeoptarg/nodeargs %s differ from the documented view %s of '
                                             'argnlist (argspec %r)' % (_brief((optarg, args)), _brief(want), argspec)))
                    continue
                legacy = 'MSAP' in name
                if got[0] == 'EXC':
                    errs.append((name, s, 'spelling %s raised %s on %r (argspec %r, tolerant=%r)' % (name, got[1], s, argspec, tol)))
                    continue
                if ref[0] == 'ok':
                    if got[:2] != ref[:2]:
                        errs.append((name, s, 'spelling %s parses %r (argspec %r, tolerant=%r) as %s, MacroSpec(name, %r) as %s'
                                     % (name, s, argspec, tol, _brief(got[:2]), argspec, _brief(ref[:2]))))
                else:
                    if got[0] == 'ok' and not tol:
                        closing_brace_case = legacy and ('closing' in (ref[1] or '') or 'brace' in (ref[1] or '')
                                                         or 'Expected expression' in (ref[1] or '')
                                                         or 'expected an expression' in (ref[1] or ''))
                        if not closing_brace_case:
                            errs.append((name, s, 'spelling %s accepts %r (argspec %r) where MacroSpec(name, %r) fails: %s'
                                         % (name, s, argspec, argspec, ref[1])))
        # the legacy per-argument math mode list (args_math_mode: True / False / None = unchanged) against per-argument
        # enter / leave math mode deltas; the recorded *delimiter* inside such an argument is not compared (the legacy
        # parser keeps the enclosing formula's, the deltas reset it -- the statement does not say which), the mode is
        if argspec:
            from pylatexenc.latexnodes import LatexArgumentSpec, ParsingStateDeltaEnterMathMode, ParsingStateDeltaLeaveMathMode
            modes = [rng.choice([None, None, True, False]) for _ in argspec]
            rec.hist('args_math_mode', ''.join('-' if m is None else 'TF'[not m] for m in modes))
            deltas = [None if m is None else (ParsingStateDeltaEnterMathMode() if m else ParsingStateDeltaLeaveMathMode())
                      for m in modes]
            newm = MacroSpec('foo', [LatexArgumentSpec(c, parsing_state_delta=d) for c, d in zip(argspec, deltas)])
            oldm = MacroSpec('foo', args_parser=MacroStandardArgsParser(argspec, args_math_mode=list(modes)))
            for tol in (False, True):
                a = parse_with_spec(s, newm, EnvironmentSpec('E', argspec), tol)
                b = parse_with_spec(s, oldm, EnvironmentSpec('E', argspec), tol)
                rec.monitor('args_math_mode_parses_compared')
                if b[0] == 'EXC':
                    errs.append(('args_math_mode', s, 'MacroStandardArgsParser(%r, args_math_mode=%r) raised %s on %r (tolerant=%r)'
                                 % (argspec, modes, b[1], s, tol)))
                elif a[0] == 'ok' and _modes_only(a[:2]) != _modes_only(b[:2]):
                    errs.append(('args_math_mode', s, 'MacroStandardArgsParser(%r, args_math_mode=%r) parses %r (tolerant=%r) as %s, '
                                 'per-argument enter/leave-math-mode deltas as %s' % (argspec, modes, s, tol, _brief(b[:2]), _brief(a[:2]))))
    return errs


def _modes_only(d):
    if isinstance(d, (list, tuple)):
        return [_modes_only(x) for x in d]
    if isinstance(d, dict):
        return {k: (v[0] if k == 'ps' and v is not None else _modes_only(v)) for k, v in d.items()}
    return d


def check_case(case, rec):
    import random
    what = case['what']
    if what == 'walker':
        rng = random.Random(case['rseed'])
        errs = compare_walker(case['s'], case['pos'], case['tol'], rng, rec)
        for method, variant, err in errs:
            rec.violation(case, '%s | string %r position %d tolerant=%r' % (err, case['s'], case['pos'], case['tol']),
                          mech=method)
    elif what == 'specs':
        rng = random.Random(case['rseed'])
        for name, s, err in check_specs(case['argspec'], case['calls'], rng, rec):
            rec.violation(case, err, mech='spelling:' + name)
    elif what == 'k4':
        s = '\\foo[o] [p]'
        a = parse_with_spec(s, MacroSpec('foo', '[['), EnvironmentSpec('E', ''), False)
        b = parse_with_spec(s, MacroSpec('foo', args_parser=MacroStandardArgsParser('[[')), EnvironmentSpec('E', ''), False)
        rec.monitor('k4_witness_checked')
        s2 = '\\begin{E} [o]x\\end{E}'
        a2 = parse_with_spec(s2, MacroSpec('foo', ''), EnvironmentSpec('E', '['), False)
        b2 = parse_with_spec(s2, MacroSpec('foo', ''), EnvironmentSpec('E', args_parser=MacroStandardArgsParser('[')), False)
        if a2[:2] != b2[:2]:
            rec.violation(case, 'legacy MacroStandardArgsParser parses %r (environment argspec "[") as %s, the new parser as %s'
                          % (s2, _brief(b2[:2]), _brief(a2[:2])), mech='K4')
        if a[:2] != b[:2]:
            rec.violation(case, 'legacy MacroStandardArgsParser parses %r (argspec "[[") as %s, the new parser as %s'
                          % (s, _brief(b[:2]), _brief(a[:2])), mech='K4')


def classify(case, msg, mech):
    if mech == 'K4' and case.get('what') == 'k4':
        return 'legacy-argsparser-space-before-later-optional-arg'
    return None


def run_shard(desc, rec):
    rng = rng_for(desc)
    if desc['kind'] == 'walker':
        src = work.DocSource(rng, 'default', depth=3)
        for i in range(desc['count']):
            if i % 3 == 0:
                s = src.next()[0]
                if len(s) > 60:
                    s = s[:60]
            else:
                s = ''.join(rng.choice(ATOMS) for _ in range(rng.randint(1, 8)))
            tol = rng.random() < 0.4
            if i % 40 == 0:
                rec.sample({'string': s, 'tolerant': tol})
            for pos in range(len(s) + 1):
                rec.case()
                check_case({'what': 'walker', 's': s, 'pos': pos, 'tol': tol, 'rseed': rng.randrange(1 << 30)}, rec)
    else:
        specs = [''.join(t) for L in range(0, 5) for t in itertools.product('*[{', repeat=L)]
        for i, argspec in enumerate(specs):
            if i % desc['n'] != desc['k']:
                continue
            rec.case()
            check_case({'what': 'specs', 'argspec': argspec, 'calls': desc['calls'], 'rseed': rng.randrange(1 << 30)}, rec)
        if desc['k'] == 0:
            rec.case()
            check_case({'what': 'k4'}, rec)


LEVEL_TEXT = ('Exploration by differential execution: for token soups and generated documents, at every start position, each '
              'legacy LatexWalker method is called with randomly chosen variants and compared (nodes as canonical dumps, '
              'position, length, failure class) with the pylatexenc-3 parser call that the documentation gives as its '
              'equivalent -- for stop_upon_closing_brace additionally with the contents of the braced group parsed one '
              'character earlier; all 121 argument strings over {*,[,{} up to length 4 are given through every legacy and '
              'new spelling and must parse generated call strings identically.')
LEVEL_NOTE = ('Trusted: the correspondence table coded in vpl/checks/c16.py (from the deprecation notes of each legacy method) and '
              'the canonical dump. Documented legacy conventions are normalised (see assumptions in the evidence).')
TECHNIQUE = 'runtime monitoring: legacy-vs-new differential execution at every start position and across all specification spellings'
