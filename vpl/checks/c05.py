"""C05 - strict mode rejects unbalanced markup and fails only with a located parse error.

Refuting events: an exception escaping a strict parse that is not a
LatexWalkerParseError; an error whose pos is None / outside [0, len]; whose
(lineno, colno) is not the line/column of its pos; a well-formed generated
document with one unmatched { } $ \\( \\) \\[ \\] \\begin{..} or \\end{..} added at a
token boundary outside verbatim text and comments that is accepted.

Oracle: exception class + reference line/column model + "must raise" for the
injected faults (the un-faulted document must parse, else the case is discarded
and counted).
"""
from ..shard import rng_for
from .. import work
from ..util import walker, LatexWalkerParseError, ref_lineno_colno, ddmin_string
from ..rec import Recorder
from pylatexenc.latexnodes.parsers import LatexGeneralNodesParser

PROPERTY = 'C05'
LEVEL = 'fault_enumeration'
RULE = ('part A: every string up to length L over the 12-symbol alphabet (L=4 quick / 5 thorough, exhaustive), random '
        'soups over every default-database name and generated documents, parsed strictly through parse_content and '
        'the legacy get_latex_nodes; part B: single-fault injection -- each of 9 structural faults inserted at every '
        'safe token boundary (quick: <= 40 boundaries per document) of generated well-formed documents (default and '
        'custom contexts). Non-trivial = a raised parse error or an injected fault; distinct = distinct input string.')
EXHAUSTIVE = {'quick': False, 'thorough': False}
ASSUMPTIONS = ["reference line/column: lines split at '\\n', first line numbered 1, column = offset in line",
               'fault boundaries come from the generator (outside \\verb, verbatim environments, calls with verbatim '
               'arguments, and comments); verbatim text of documents used for injection is drawn from inert '
               'characters so that a fault cannot be hidden by former verbatim text re-read as a comment or brace']
FAULTS = ['{', '}', '$', '\\(', '\\)', '\\[', '\\]', '\\begin{%s}', '\\end{%s}']


def plan(tier, seed):
    if tier == 'quick':
        sh = [{'kind': 'enum', 'L': 4, 'k': k, 'n': 4, 'name': 'enum%d' % k} for k in range(4)]
        sh += [{'kind': 'soup', 'count': 5000, 'name': 'soup%d' % k} for k in range(3)]
        sh += [{'kind': 'inject', 'vocab': 'default', 'count': 60, 'maxb': 40, 'depth': 4, 'name': 'injd%d' % k} for k in range(5)]
        sh += [{'kind': 'inject', 'vocab': 'custom', 'count': 60, 'maxb': 40, 'depth': 4, 'name': 'injc%d' % k, 'cb': 30 * k}
               for k in range(4)]
        return sh
    sh = [{'kind': 'enum', 'L': 5, 'k': k, 'n': 16, 'name': 'enum%d' % k} for k in range(16)]
    sh += [{'kind': 'soup', 'count': 30000, 'name': 'soup%d' % k} for k in range(12)]
    sh += [{'kind': 'inject', 'vocab': 'default', 'count': 500, 'maxb': 100000, 'depth': 4 + k % 3, 'name': 'injd%d' % k} for k in range(12)]
    sh += [{'kind': 'inject', 'vocab': 'custom', 'count': 500, 'maxb': 100000, 'depth': 4 + k % 3, 'name': 'injc%d' % k, 'cb': 50 * k}
           for k in range(12)]
    return sh


def floors(tier):
    return {'evaluations': 30000, 'distinct_nontrivial': 10000, 'errors_located': 15000,
            'faults_injected': 20000, 'histkeys:fault': 9, 'legacy_api_errors': 3000,
            'custom_context_soups': 500, 'parser_class_context_soups': 1000, 'parses_from_configured_state': 2000,
            'stop_condition_entry_points': 3000, 'bodies_without_their_closing_token': 300, 'module_level_function_calls': 3000, 'faults_after_blank_before_nospace_marker': 200, 'truncated_documents_parsed_before_injection': 500,
            'failed_parse_inside_verbatim_then_stray_brace': 20, 'histkeys:numbering': 2, 'hist:numbering:line_number_offset': 5000}


def setup(rec):
    pass


# numbering configurations of the walker (line numbering only: how the two column offsets combine on the first line is
# read in two ways, which C20 handles; here both readings must agree)
NUMBERINGS = [{}, {'line_number_offset': 0}, {'line_number_offset': 7}, {'line_number_offset': -1}]


def strict_outcome(s, ctx, api, psopts=None, numbering=None):
    """('ok', nodes) / ('parse_error', exc) / ('foreign', exc)"""
    try:
        lw = walker(s, ctx, tolerant=False, psopts=psopts, **(numbering or {}))
        if api == 'new':
            nl, _ = lw.parse_content(LatexGeneralNodesParser())
        elif api == 'legacy':
            nl = lw.get_latex_nodes()[0]
        elif api.startswith('legacy-max'):
            # the legacy entry point with its node-count stop condition
            nl = lw.get_latex_nodes(read_max_nodes=int(api[len('legacy-max'):]))[0]
        elif api == 'single-node':
            from pylatexenc.latexnodes.parsers import LatexSingleNodeParser
            nl, _ = lw.parse_content(LatexSingleNodeParser())
        elif api == 'module-level':
            # the pylatexenc-1 style module-level function, parse flags passed through keyword arguments
            from pylatexenc import latexwalker as _LWM
            if ctx is None:
                from ..util import default_ctx
                ctx = default_ctx()
            ctx.freeze()
            nl = _LWM.get_latex_nodes(s, tolerant_parsing=False, latex_context=ctx, **(numbering or {}))[0]
        elif api.startswith('legacy-body-of-env:'):
            # the legacy entry point reading the body of an environment / a group whose opener the caller has consumed
            nl = lw.get_latex_nodes(stop_upon_end_environment=api.split(':', 1)[1])[0]
        elif api.startswith('legacy-body-of-group:'):
            nl = lw.get_latex_nodes(stop_upon_closing_brace=api.split(':', 1)[1])[0]
        elif api.startswith('new-body-of-env:'):
            from pylatexenc.latexnodes.parsers import LatexGeneralNodesParser as _G
            name = api.split(':', 1)[1]
            nl, _ = lw.parse_content(_G(stop_token_condition=lambda t: t.tok == 'end_environment' and t.arg == name,
                                        require_stop_condition_met=True))
        return 'ok', nl, lw
    except LatexWalkerParseError as e:
        return 'parse_error', e, None
    except RecursionError as e:
        return 'recursion', e, None
    except Exception as e:
        return 'foreign', e, None


def check_error(s, e, numbering=None):
    pos = getattr(e, 'pos', None)
    if not isinstance(pos, int) or isinstance(pos, bool):
        return 'parse error without integer position (pos=%r): %s' % (pos, getattr(e, 'msg', e))
    if not (0 <= pos <= len(s)):
        return 'parse error position %r outside the input (length %d): %s' % (pos, len(s), e.msg)
    want = ref_lineno_colno(s, pos, **(numbering or {}))
    got = (getattr(e, 'lineno', None), getattr(e, 'colno', None))
    if got != want:
        return 'parse error at pos %d reports line/column %r, expected %r: %s' % (pos, got, want, e.msg)
    return None


def check_case(case, rec):
    s = case['s']
    ctx = work.ctx_for(case.get('ctx')) if case.get('ctx_obj') != 'nospace-markers' else nospace_marker_context()
    must_raise = case.get('must_raise', False)
    apis = case.get('apis', ['new', 'legacy'])
    if 'apis' not in case and len(s) % 4 == 1:
        apis = apis + ['legacy-max%d' % (1 + len(s) % 3), 'single-node']
        rec.monitor('stop_condition_entry_points')
    if 'apis' not in case and len(s) % 4 == 2 and not case.get('psopts'):
        apis = apis + ['module-level']
        rec.monitor('module_level_function_calls')
    psopts = case.get('psopts')
    if psopts:
        rec.monitor('parses_from_configured_state')
    numbering = case.get('numbering')
    if numbering is None and 'apis' not in case and not psopts:
        numbering = NUMBERINGS[len(s) % len(NUMBERINGS)]
    rec.hist('numbering', ','.join(sorted(numbering)) if numbering else 'default')
    for api in apis:
        what, val, _ = strict_outcome(s, ctx, api, psopts, numbering)
        rec.hist('outcome', what)
        if what == 'foreign':
            import traceback
            tb = traceback.extract_tb(val.__traceback__)
            where = '%s:%d' % (tb[-1].filename.split('/')[-1], tb[-1].lineno) if tb else '?'
            rec.violation(case, 'strict parse (%s API) raised %s instead of LatexWalkerParseError: %s [%s] | input %r'
                          % (api, type(val).__name__, str(val)[:200], where, s), mech='foreign:' + type(val).__name__)
            continue
        if what == 'recursion':
            rec.monitor('recursion_limit_inputs')
            continue
        if what == 'parse_error':
            rec.monitor('errors_located')
            if api == 'legacy':
                rec.monitor('legacy_api_errors')
            rec.nontrivial(s)
            err = check_error(s, val, numbering)
            if err:
                rec.violation(dict(case, numbering=numbering), '%s (%s API, walker numbering %r) | input %r' % (
                    err, api, numbering or {}, s), mech='location')
        elif must_raise:
            rec.violation(case, 'document with injected fault %r at %d was accepted in strict mode (%s API) | input %r'
                          % (case.get('fault'), case.get('at'), api, s), mech='accepted:' + str(case.get('fault')))


def shrink(v):
    case = dict(v['case'])
    if case.get('must_raise'):
        return v

    def fails(x):
        r = Recorder()
        check_case(dict(case, s=x), r)
        return r.n_violations > 0
    case['s'] = ddmin_string(case['s'], fails)
    r = Recorder()
    check_case(case, r)
    return r.violations[0] if r.violations else v


_NSM = []


def nospace_marker_context():
    """Macros whose optional marker arguments (star, tack-on character) do not allow blanks in front of them."""
    if not _NSM:
        from pylatexenc.macrospec import LatexContextDb, MacroSpec, EnvironmentSpec
        from pylatexenc.latexnodes import LatexArgumentSpec
        from pylatexenc.latexnodes.parsers import LatexStandardArgumentParser as SAP
        db = LatexContextDb()
        db.add_context_category('c', macros=[
            MacroSpec('mk', [LatexArgumentSpec('{'), LatexArgumentSpec(SAP('*', allow_pre_space=False))]),
            MacroSpec(';', [LatexArgumentSpec(SAP('*', allow_pre_space=False)), LatexArgumentSpec(SAP('[', allow_pre_space=False))]),
            MacroSpec('tk', [LatexArgumentSpec(SAP('t+', allow_pre_space=False))]),
            MacroSpec('textbf', '{')], environments=[EnvironmentSpec('ev', [LatexArgumentSpec(SAP('*', allow_pre_space=False))])])
        db.set_unknown_macro_spec(MacroSpec(''))
        db.set_unknown_environment_spec(EnvironmentSpec(''))
        db.freeze()
        _NSM.append(db)
    return _NSM[0]


def nospace_marker_context_faults(rng, rec):
    ctx = nospace_marker_context()
    docs = ['x \\mk{u} y', 'a \\; b', '\\textbf{x \\mk{u} y}', '\\; [2pt] c', '\\begin{ev} body\\end{ev}', 'p \\tk\\; q', '\\mk{a}* b',
            '\\;* [x] y', '$a \\; b$']
    for d in docs:
        what, val, _ = strict_outcome(d, ctx, 'new')
        rec.case()
        if what != 'ok':
            rec.monitor('unfaulted_document_rejected')
            continue
        # a single unmatched token right after a blank that follows a call whose next slot is such a marker
        places = [i + 1 for i, ch in enumerate(d) if ch == ' ']
        for b in places:
            for f in FAULTS:
                fault = f % 'zz' if '%s' in f else f
                if d.startswith('$') and fault in ('$', '\\(', '\\[', '\\)', '\\]'):
                    continue
                s2 = d[:b] + fault + ' ' + d[b:]
                rec.case()
                rec.monitor('faults_after_blank_before_nospace_marker')
                check_case({'s': s2, 'ctx_obj': 'nospace-markers', 'must_raise': True, 'fault': fault, 'at': b, 'apis': ['new']}, rec)


def run_shard(desc, rec):
    rng = rng_for(desc)
    kind = desc['kind']
    if kind == 'enum':
        for s in work.enum_strings(desc['L'], desc['k'], desc['n']):
            rec.case()
            check_case({'s': s}, rec)
    elif kind == 'soup':
        nospace_marker_context_faults(rng, rec)
        for i, s in enumerate(work.soups(rng, desc['count'])):
            rec.case()
            if i % 500 == 0:
                rec.sample(s)
            check_case({'s': s}, rec)
        # soups over the names of generated custom contexts (every standard argument type)
        for j in range(max(1, desc['count'] // 400)):
            vseed = [rng.randrange(1 << 30), j]
            vocab, db = work.vocab_from_seed(vseed)
            for s in work.custom_soups(rng, vocab, 100):
                rec.case()
                rec.monitor('custom_context_soups')
                check_case({'s': s, 'ctx': {'vocab': 'custom', 'vseed': vseed}}, rec)
        # soups over a context using the argument parser classes that have no argument-string spelling (comma-separated
        # list, characters group, tack-on field macros, full-node-list markers)
        for s in work.nlargs_strings(rng, max(200, desc['count'] // 4)):
            rec.case()
            rec.monitor('parser_class_context_soups')
            check_case({'s': s, 'ctx': {'vocab': 'nlargs'}}, rec)
        # the walker started from a non-default parsing state (every switch of ParsingState)
        for i, s in enumerate(work.soups(rng, max(400, desc['count'] // 3))):
            rec.case()
            check_case({'s': s, 'psopts': work.PS_CONFIGS[i % len(work.PS_CONFIGS)]}, rec)
    else:
        # verbatim text is restricted to characters that stay inert if a fault makes the parser
        # re-read it as markup (a '%' or brace inside former verbatim text could hide or re-balance
        # the fault, which the property does not exclude: it speaks of the document as written)
        src = work.DocSource(rng, desc['vocab'], depth=desc['depth'], cover_base=desc.get('cb', 0),
                             profile={'verb_chars': 'ab _&#~^'})
        for i in range(desc['count']):
            s, ast, bounds, vocab, db, cdesc = src.next()
            rec.case()
            what, val, _ = strict_outcome(s, db, 'new')
            if what != 'ok':
                # a generated document that does not parse is C02's business; discard for injection
                rec.monitor('unfaulted_document_rejected')
                check_case({'s': s, 'ctx': cdesc}, rec)
                continue
            envname = 'zz' if vocab.unknown_ok else 'enva'
            # the same well-formed document read as the *body* of a construct whose opener was consumed by the caller: the
            # opener is then the single unmatched addition, and reaching the end of the input must be an error
            if i % 2 == 0:
                for api in ('legacy-body-of-env:' + envname, 'legacy-body-of-group:}', 'legacy-body-of-group:]',
                            'new-body-of-env:' + envname):
                    rec.case()
                    rec.monitor('bodies_without_their_closing_token')
                    check_case({'s': s, 'ctx': cdesc, 'must_raise': True, 'fault': 'opener consumed by the caller (%s)' % api,
                                'at': 0, 'apis': [api]}, rec)
            # earlier failed parses in the same process (same context database, same cached argument parsers): the
            # document cut off at arbitrary places, e.g. inside an argument or inside verbatim text
            for _ in range(2):
                cut = rng.randint(1, max(1, len(s) - 1))
                rec.case()
                rec.monitor('truncated_documents_parsed_before_injection')
                check_case({'s': s[:cut], 'ctx': cdesc, 'apis': ['new']}, rec)
            # earlier parse that failed *inside verbatim text*, then a stray brace right after that verbatim argument
            from ..gen import doc as D
            for (v0, v1, vo, vc) in list(D.LAST_RENDER.get('vspans', []))[:3]:
                if v1 + len(vc) > len(s) or s[v1:v1 + len(vc)] != vc or (v1 + len(vc)) not in set(bounds):
                    continue    # only at boundaries the generator knows to be safe (not before a further verbatim argument)
                rec.case()
                rec.monitor('failed_parse_inside_verbatim_then_stray_brace')
                check_case({'s': s[:rng.randint(v0, v1)], 'ctx': cdesc, 'apis': ['new']}, rec)
                after = v1 + len(vc)
                check_case({'s': s[:after] + '}' + s[after:], 'ctx': cdesc, 'must_raise': True, 'fault': '}', 'at': after,
                            'apis': ['new'], 'after_failed_parse': s[:v0]}, rec)
            bs = list(bounds)
            if len(bs) > desc['maxb']:
                bs = sorted(rng.sample(bs, desc['maxb']))
            for b in bs:
                for f in FAULTS:
                    fault = f % envname if '%s' in f else f
                    s2 = s[:b] + fault + s[b:]
                    rec.case()
                    rec.monitor('faults_injected')
                    rec.hist('fault', f)
                    case = {'s': s2, 'ctx': cdesc, 'must_raise': True, 'fault': fault, 'at': b,
                            'apis': ['new', 'module-level'] if (b + len(s2)) % 6 == 0 else ['new']}
                    if len(case['apis']) > 1:
                        rec.monitor('module_level_function_calls')
                    if (i * 131 + b) % 4001 == 0:
                        rec.sample({'document': s, 'fault': fault, 'at': b})
                    check_case(case, rec)


LEVEL_TEXT = ('Systematic single-fault injection plus exploration: each of 9 structural faults is inserted at every safe '
              'token boundary of generated well-formed documents and the real strict parser must reject every one; in '
              'addition every strict-mode failure observed over all short strings, soups over all database names and '
              'generated documents must be a LatexWalkerParseError carrying an in-range position whose line/column '
              'agree with a reference model. Fault enumeration is the natural level: the property quantifies over '
              'fault x boundary x document.')
LEVEL_NOTE = ('Trusted: the generator marks verbatim/comment regions as unsafe boundaries; the un-faulted document is '
              'parsed first and documents that do not parse are not used for injection (counted). RecursionError on '
              'pathological nesting is counted separately, never generated by the bounded workloads.')
TECHNIQUE = 'runtime monitoring: systematic single-fault injection at generated token boundaries + exception-type/position oracle on the real strict parser'
