"""C10 - each node's math/text mode is the one implied by the enclosing structure.

Refuting events: a node whose parsing_state.in_math_mode / math_mode_delimiter
differs from what the enclosing returned structure implies (contents of $..$,
\\(..\\), $$..$$, \\[..\\] in math mode with that opening delimiter; bodies of math
environments and the argument of \\ensuremath in math mode with a non-core
delimiter; arguments of \\text-like macros in text mode; everything else
inherits); a math node whose delimiters are not the source at its span or whose
displaytype does not match the delimiter kind; for generated documents, a text
piece or formula whose recorded mode/span differs from the generator's ground
truth; for dollar/paren strings, a formula list differing from a reference
automaton ($a$$b$ = two inline formulas, $$a$$ = one display formula).
"""
from ..shard import rng_for
from .. import work
from ..gen import soup, doc as D
from ..util import parse, LatexWalkerParseError, ddmin_string
from ..mon import canon
from ..rec import Recorder
from pylatexenc.latexnodes import nodes as N

PROPERTY = 'C10'
LEVEL = 'exploration'
RULE = ('all strings up to length L over {$, a, {, }, space, \\(, \\), \\[, \\]} (L=6 quick, 7 thorough; exhaustive) checked '
        'against a reference automaton and the propagation oracle; grammar-generated documents with nested math, '
        'text-in-math, math-in-text-in-math, groups, environments, adjacent formulas (default and custom contexts) '
        'checked with the propagation oracle and the generator ground truth (per text piece and per formula). '
        'Non-trivial = accepted input containing >= 1 formula; distinct = distinct input.')
EXHAUSTIVE = {'quick': True, 'thorough': True}
ASSUMPTIONS = ['text-like macros (documented): mbox, text, textrm, textit, textbf, textmd, textsc, textsf, textsl, texttt, '
               'textup; math environments (documented): equation, align, gather, multline, eqnarray, flalign, alignat, '
               'split and starred variants; math argument: ensuremath',
               'math mode entered by an environment or \\ensuremath must record a delimiter that is none of the four '
               'core delimiters']

CORE = {'$': ('$', 'inline'), '\\(': ('\\)', 'inline'), '$$': ('$$', 'display'), '\\[': ('\\]', 'display')}
TEXTMACROS = {'mbox', 'text', 'textrm', 'textit', 'textbf', 'textmd', 'textsc', 'textsf', 'textsl', 'texttt', 'textup'}
MATHENVS = set()
for _e in ('equation', 'align', 'gather', 'multline', 'eqnarray', 'flalign', 'alignat'):
    MATHENVS.add(_e)
    MATHENVS.add(_e + '*')
MATHENVS.add('split')
SMALL = ['$', 'a', '{', '}', ' ', '\\(', '\\)', '\\[', '\\]']


def plan(tier, seed):
    if tier == 'quick':
        sh = [{'kind': 'enum', 'L': 6, 'k': k, 'n': 10, 'name': 'enum%d' % k} for k in range(10)]
        sh += [{'kind': 'docs', 'vocab': 'default', 'count': 2500, 'depth': 5, 'name': 'ddoc%d' % k} for k in range(3)]
        sh += [{'kind': 'docs', 'vocab': 'custom', 'count': 2500, 'depth': 5, 'name': 'cdoc%d' % k, 'cb': 31 * k} for k in range(3)]
        return sh
    sh = [{'kind': 'enum', 'L': 7, 'k': k, 'n': 32, 'name': 'enum%d' % k} for k in range(32)]
    sh += [{'kind': 'docs', 'vocab': 'default', 'count': 8000, 'depth': 4 + k % 4, 'name': 'ddoc%d' % k} for k in range(8)]
    sh += [{'kind': 'docs', 'vocab': 'custom', 'count': 8000, 'depth': 4 + k % 4, 'name': 'cdoc%d' % k, 'cb': 211 * k} for k in range(8)]
    return sh


def floors(tier):
    return {'evaluations': 100000, 'distinct_nontrivial': 8000, 'nodes_mode_checked': 200000,
            'automaton_compared': 2000, 'ground_truth_pieces': 30000, 'formulas_checked': 15000,
            'hist:nesting:math-in-text-in-math': 50, 'hist:nesting:text-in-math': 200,
            'hist:adjacent:inline-inline-dollar': 20, 'mixed_mode_argument_calls': 200,
            'direct_math_parser_calls': 5000, 'legacy_bodies_read_in_supplied_math_state': 1500, 'histkeys:math_parser_delimiters': 3}


def setup(rec):
    pass


# ---------------------------------------------------------------- propagation oracle

def propagate(s, n, mode, delim, rec, modes, depthinfo):
    """mode: expected in_math_mode; delim: expected delimiter, or '<noncore>' for env/ensuremath math."""
    ps = n.parsing_state
    rec.monitor('nodes_mode_checked')
    if canon.kind(n) == 'macro' and n.macroname in ('annot', 'mlabel', 'tmix'):
        rec.monitor('mixed_mode_argument_calls')
    if bool(ps.in_math_mode) != mode:
        return '%s at %d..%d records in_math_mode=%r, the enclosing structure implies %r' % (
            canon.kind(n), n.pos, n.pos_end, ps.in_math_mode, mode)
    if mode:
        if delim == '<noncore>':
            if ps.math_mode_delimiter in CORE:
                return '%s at %d records math delimiter %r inside an environment/argument math mode' % (
                    canon.kind(n), n.pos, ps.math_mode_delimiter)
        elif ps.math_mode_delimiter != delim:
            return '%s at %d..%d records math delimiter %r, enclosing formula was opened by %r' % (
                canon.kind(n), n.pos, n.pos_end, ps.math_mode_delimiter, delim)
    elif ps.math_mode_delimiter is not None:
        return '%s at %d records math delimiter %r in text mode' % (canon.kind(n), n.pos, ps.math_mode_delimiter)
    k = canon.kind(n)
    if k == 'math':
        rec.monitor('formulas_checked')
        o, c = n.delimiters
        if s[n.pos:n.pos + len(o)] != o or s[n.pos_end - len(c):n.pos_end] != c:
            return 'math node delimiters %r are not the source at its span %r' % ((o, c), s[n.pos:n.pos_end])
        if o not in CORE or CORE[o] != (c, n.displaytype):
            return 'math node with delimiters %r has displaytype %r' % ((o, c), n.displaytype)
        if depthinfo.get('tim_depth', 0) > 0:
            depthinfo['nested'] = True
        if mode:
            depthinfo['math_in_math'] = True
        for x in (n.nodelist or []):
            if x is not None:
                r = propagate(s, x, True, o, rec, modes, depthinfo)
                if r:
                    return r
        return None
    nad = getattr(n, 'nodeargd', None)
    if nad is not None and getattr(nad, 'argnlist', None):
        argmodes = None
        if k in ('macro', 'env'):
            argmodes = modes(k, n)
        for i, a in enumerate(nad.argnlist):
            if a is None:
                continue
            m, d = mode, delim
            am = argmodes[i] if argmodes and i < len(argmodes) else None
            if am == 'text':
                if mode:
                    depthinfo['text_in_math'] = True
                m, d = False, None
            elif am == 'math':
                m, d = True, '<noncore>'
            items = a if isinstance(a, (list, tuple, N.LatexNodeList)) else [a]
            tim = (am == 'text' and mode)
            if tim:
                depthinfo['tim_depth'] = depthinfo.get('tim_depth', 0) + 1
            try:
                for x in items:
                    if x is None:
                        continue
                    r = propagate(s, x, m, d, rec, modes, depthinfo)
                    if r:
                        return r
            finally:
                if tim:
                    depthinfo['tim_depth'] -= 1
    nl = getattr(n, 'nodelist', None)
    if nl is not None:
        m, d = mode, delim
        if k == 'env' and modes('envbody', n):
            m, d = True, '<noncore>'
        for x in nl:
            if x is None:
                continue
            r = propagate(s, x, m, d, rec, modes, depthinfo)
            if r:
                return r
    return None


def default_modes(kind, n):
    if kind == 'macro':
        if n.macroname in TEXTMACROS:
            return ['text'] * 4
        if n.macroname == 'ensuremath':
            return ['math']
        return None
    if kind == 'envbody':
        return n.environmentname in MATHENVS
    return None


def vocab_modes(vocab):
    def f(kind, n):
        if kind == 'macro':
            d = vocab.macros.get(n.macroname)
            return d['mode'] if d else None
        if kind == 'env':
            d = vocab.envs.get(n.environmentname)
            return d['mode'] if d else None
        if kind == 'envbody':
            d = vocab.envs.get(n.environmentname)
            return bool(d and d.get('math'))
        return None
    return f


# ---------------------------------------------------------------- reference automaton

def automaton(s):
    """Formulas of a string over SMALL: list of (pos, pos_end, open, close, displaytype), or None if the
    string is not well-formed by the automaton's own (math nesting depth <= 1) rules."""
    i, n = 0, len(s)
    stack = []          # '{' or (open, pos)
    out = []
    while i < n:
        two = s[i:i + 2]
        top = stack[-1] if stack else None
        inmath = None
        for x in stack:
            if x != '{':
                inmath = x
        if two in ('\\(', '\\['):
            if inmath is not None:
                return None
            stack.append((two, i))
            i += 2
            continue
        if two in ('\\)', '\\]'):
            want = '\\(' if two == '\\)' else '\\['
            if top is None or top == '{' or top[0] != want:
                return None
            stack.pop()
            out.append((top[1], i + 2, want, two, CORE[want][1]))
            i += 2
            continue
        c = s[i]
        if c == '$':
            if inmath is None:
                if two == '$$':
                    stack.append(('$$', i))
                    i += 2
                else:
                    stack.append(('$', i))
                    i += 1
                continue
            if inmath[0] == '$':
                if top != inmath:
                    return None
                stack.pop()
                out.append((top[1], i + 1, '$', '$', 'inline'))
                i += 1
                continue
            if inmath[0] == '$$':
                if two != '$$' or top != inmath:
                    return None
                stack.pop()
                out.append((top[1], i + 2, '$$', '$$', 'display'))
                i += 2
                continue
            return None
        if c == '{':
            stack.append('{')
        elif c == '}':
            if top != '{':
                return None
            stack.pop()
        i += 1
    if stack:
        return None
    return sorted(out)


def math_nodes(nl):
    out = []
    for n in canon.walk(nl):
        if canon.kind(n) == 'math':
            out.append((n.pos, n.pos_end, n.delimiters[0], n.delimiters[1], n.displaytype))
    return sorted(out)


# ---------------------------------------------------------------- case

def check_case(case, rec):
    s = case['s']
    cdesc = case.get('ctx')
    ctx = work.ctx_for(cdesc)
    try:
        nl = parse(s, ctx=ctx, tolerant=False)
        accepted = True
    except LatexWalkerParseError:
        accepted = False
    except Exception:
        return
    err = None
    if case.get('automaton'):
        ref = automaton(s)
        if ref is not None and accepted:
            rec.monitor('automaton_compared')
            got = math_nodes(nl)
            if got != ref:
                err = 'formulas %r differ from the reference splitting %r' % (got, ref)
            for a, b in zip(ref, ref[1:]):
                if a[1] == b[0] and a[2] == '$' and b[2] == '$':
                    rec.hist('adjacent', 'inline-inline-dollar')
        elif ref is not None and not accepted:
            rec.monitor('automaton_wellformed_but_rejected')
        elif ref is None and accepted:
            rec.monitor('accepted_outside_automaton')
    if not accepted:
        rec.monitor('rejected')
        return
    if cdesc and cdesc.get('vocab') == 'custom':
        modes = vocab_modes(work.vocab_from_seed(cdesc['vseed'])[0])
    else:
        modes = default_modes
    info = {}
    if not err:
        for n in nl:
            if n is None:
                continue
            err = propagate(s, n, False, None, rec, modes, info)
            if err:
                break
    if info.get('text_in_math'):
        rec.hist('nesting', 'text-in-math')
    if info.get('nested'):
        rec.hist('nesting', 'math-in-text-in-math')
    if info.get('math_in_math'):
        rec.hist('nesting', 'math-directly-in-math')
    if not err and case.get('ast') is not None:
        err = ground_truth(case, s, nl, rec)
    if not err and case.get('automaton'):
        err = direct_math_parser(s, nl, rec)
    if not err and case.get('legacy_body'):
        err = legacy_body_in_math(s, ctx, case['legacy_body'], modes, rec)
    if any(canon.kind(n) == 'math' for n in canon.walk(nl)) or info:
        rec.nontrivial(s)
    if err:
        rec.violation(case, '%s | source %r | tree %s' % (err, s, canon.short(nl)[:500]), mech=err.split(' at ')[0][:40])


def legacy_body_in_math(s, ctx, how, modes, rec):
    """The document read by the legacy entry point get_latex_nodes() as the contents of a bracket / parenthesis / brace
    group, with a parsing state supplied by the caller that is in math mode (what a pylatexenc-2 style arguments parser does
    inside a formula): the nodes inherit that mode; text-like arguments and nested formulas switch relative to it."""
    from ..util import walker
    closing, delim = how
    lw = walker(s + closing[-1], ctx, tolerant=False)
    psm = lw.make_parsing_state(in_math_mode=True, math_mode_delimiter=delim)
    try:
        nodes = lw.get_latex_nodes(pos=0, stop_upon_closing_brace=(closing if len(closing) == 1 else tuple(closing)),
                                   parsing_state=psm)[0]
    except LatexWalkerParseError:
        rec.monitor('legacy_body_rejected')
        return None
    except Exception as e:
        return None
    rec.monitor('legacy_bodies_read_in_supplied_math_state')
    rec.hist('legacy_body_closing', closing)
    info = {}
    for n in nodes:
        if n is None:
            continue
        err = propagate(s + closing[-1], n, True, delim if delim in CORE else '<noncore>', rec, modes, info)
        if err:
            return 'get_latex_nodes(stop_upon_closing_brace=%r, parsing_state=<math mode, delimiter %r>): %s' % (closing, delim, err)
    return None


def direct_math_parser(s, nl, rec):
    """The public formula parser used directly, with each documented way of naming the delimiters (None = detect, the opening
    delimiter, an (opening, closing) pair), must give the formula node the document parse gives at that place: same extent,
    same recorded modes and opening delimiter throughout."""
    from pylatexenc.latexnodes.parsers import LatexMathParser
    from ..util import walker
    for m in [n for n in nl if n is not None and canon.kind(n) == 'math'][:2]:
        want = canon.canon(m)
        for form in (None, m.delimiters[0], (m.delimiters[0], m.delimiters[1])):
            lw = walker(s, tolerant=False)
            rec.monitor('direct_math_parser_calls')
            rec.hist('math_parser_delimiters', 'None' if form is None else ('pair' if isinstance(form, tuple) else 'opening'))
            try:
                got, _ = lw.parse_content(LatexMathParser(math_mode_delimiters=form), token_reader=lw.make_token_reader(pos=m.pos))
            except Exception as e:
                return 'LatexMathParser(math_mode_delimiters=%r) at %d raised %s: %s; the document parse finds the formula %s' % (
                    form, m.pos, type(e).__name__, str(getattr(e, 'msg', e))[:80], canon.short(m))
            if canon.canon(got) != want:
                mm = [(x.pos, canon.kind(x), bool(x.parsing_state.in_math_mode), x.parsing_state.math_mode_delimiter)
                      for x in canon.walk(got) if getattr(x, 'parsing_state', None) is not None]
                return 'LatexMathParser(math_mode_delimiters=%r) at %d gives %s with recorded modes %r; the document parse ' \
                       'gives %s' % (form, m.pos, canon.short(got), mm, canon.short(m))
    return None


def ground_truth(case, s, nl, rec):
    cdesc = case.get('ctx') or {'vocab': 'default'}
    vocab = D.default_vocab() if cdesc.get('vocab') != 'custom' else work.vocab_from_seed(cdesc['vseed'])[0]
    ast = D.from_jsonable(case['ast'])
    try:
        src, _ = D.render(ast, vocab)
    except D.Redraw:
        return None
    if src != s:
        return None
    tspans = D.LAST_RENDER['tspans']
    mspans = D.LAST_RENDER['mspans']
    # every character of a written text piece must lie in a chars node recording the written mode
    charnodes = [n for n in canon.walk(nl) if canon.kind(n) == 'chars']
    flags = {}
    for n in charnodes:
        ps = n.parsing_state
        for p in range(n.pos, n.pos_end):
            flags[p] = (bool(ps.in_math_mode), ps.math_mode_delimiter)
    for (a, b, m, d) in tspans:
        rec.monitor('ground_truth_pieces')
        for p in range(a, b):
            if p not in flags:
                # text consumed as a single-token argument is still a chars node; anything else is C02's business
                continue
            fm, fd = flags[p]
            if fm != m:
                return 'text %r written in %s mode at %d is recorded with in_math_mode=%r' % (
                    s[a:b], 'math' if m else 'text', a, fm)
            if m and d in CORE and fd != d:
                return 'text %r written inside a formula opened by %r is recorded with delimiter %r' % (s[a:b], d, fd)
            if m and d not in CORE and fd in CORE:
                return 'text %r written in environment/argument math mode is recorded with core delimiter %r' % (s[a:b], fd)
    got = math_nodes(nl)
    want = sorted((a, b, o, c, CORE[o][1]) for (a, b, o, c) in mspans)
    for x, y in zip(want, want[1:]):
        if x[1] == y[0] and x[2] == '$' and y[2] == '$':
            rec.hist('adjacent', 'inline-inline-dollar')
    if got != want:
        return 'formulas %r differ from the written ones %r' % (got, want)
    return None


def shrink(v):
    case = dict(v['case'])
    if case.get('ast') is not None or case.get('ctx'):
        return v

    def fails(x):
        r = Recorder()
        check_case(dict(case, s=x), r)
        return r.n_violations > 0
    case['s'] = ddmin_string(case['s'], fails, max_tests=200)
    r = Recorder()
    check_case(case, r)
    return r.violations[0] if r.violations else v


def run_shard(desc, rec):
    rng = rng_for(desc)
    if desc['kind'] == 'enum':
        for s in work.enum_strings(desc['L'], desc['k'], desc['n'], alphabet=SMALL):
            rec.case()
            check_case({'s': s, 'automaton': True}, rec)
    else:
        profile = {'math': 3.0, 'macro': 3.5, 'text': 2.5, 'verb': 0.1, 'comment': 0.3, 'par': 0.2, 'ws': 0.25}
        src = work.DocSource(rng, desc['vocab'], depth=desc['depth'], profile=profile, cover_base=desc.get('cb', 0))
        for i in range(desc['count']):
            s, ast, bounds, vocab, db, cdesc = src.next()
            rec.case()
            if i % 200 == 0:
                rec.sample(s)
            case = {'s': s, 'ctx': cdesc, 'ast': D.to_jsonable(ast)}
            if i % 3 == 0:
                case['legacy_body'] = [rng.choice(['}', ']', ')', '>', '(]']), rng.choice([None, None, 'x'])]
            check_case(case, rec)


LEVEL_TEXT = ('Exploration with three independent oracles on the real parser: (1) top-down propagation of the implied mode over '
              'every returned tree, (2) generator ground truth per written text piece and per formula for grammar documents '
              'with nested math / text-in-math / math-in-text-in-math in default and custom contexts, (3) a 60-line '
              'reference automaton for all strings up to length 6/7 over the dollar/paren alphabet (exhaustive), which '
              'decides how dollar runs split.')
LEVEL_NOTE = ('Trusted: the lists of documented text-like macros and math environments, the automaton, the generator spans. '
              'Strings the automaton does not consider well-formed (nesting depth > 1) are only checked by propagation.')
TECHNIQUE = 'runtime monitoring: mode-propagation oracle + generator ground truth + reference dollar-run automaton over bounded-exhaustive strings and generated documents'
