"""C19 - a node visitor sees every node exactly once, children first, in document order.

Refuting events: the sequence of visit_* callbacks differs from an independent
post-order traversal (by object identity: every node reachable through bodies
and arguments exactly once, arguments before body, document order, children
before their parent); a callback of the wrong kind for a node; the
visited_results_* keyword arguments are not the children's return values in
that order; absent arguments are not None placeholders.

Oracle: a recording visitor returning a unique token per callback vs a
reference traversal written from the LatexNodesVisitor documentation.
"""
from ..shard import rng_for
from .. import work
from ..util import parse, LatexWalkerParseError
from ..mon import canon
from ..rec import Recorder
from pylatexenc.latexnodes import nodes as N, ParsedArguments

PROPERTY = 'C19'
LEVEL = 'exploration'
RULE = ('trees produced by strictly parsing generated documents (default and custom contexts: every node kind, absent '
        'and present arguments of all ten slot kinds, empty bodies, nesting depth <= 4/6) and by tolerantly parsing '
        'token soups over all default-database names (trees with None bodies / missing argument objects); the visitor '
        'is started on the top-level list and, for a sample, on individual nodes. Non-trivial = tree with >= 5 '
        'visited objects and >= 3 callback kinds; distinct = distinct source.')
EXHAUSTIVE = {'quick': False, 'thorough': False}
ASSUMPTIONS = ['documented conventions: body nodes of group/math/environment nodes are visited individually (no '
               'visit_node_list call for the body); macro/environment/specials arguments are visited through one '
               'visit_parsed_arguments call whose result is passed as visited_results_arguments']

CALLBACK_FOR = {
    'chars': 'visit_chars_node', 'group': 'visit_group_node', 'comment': 'visit_comment_node',
    'macro': 'visit_macro_node', 'env': 'visit_environment_node', 'specials': 'visit_specials_node',
    'math': 'visit_math_node',
}


def plan(tier, seed):
    if tier == 'quick':
        return [{'kind': 'docs', 'vocab': 'default', 'count': 1200, 'depth': 4, 'name': 'ddoc%d' % k} for k in range(3)] + \
               [{'kind': 'docs', 'vocab': 'custom', 'count': 1200, 'depth': 4, 'name': 'cdoc%d' % k, 'cb': 40 * k} for k in range(3)] + \
               [{'kind': 'soup', 'count': 5000, 'name': 'soup%d' % k} for k in range(4)] + \
               [{'kind': 'nlargs', 'count': 3000, 'name': 'nlargs%d' % k} for k in range(2)]
    return [{'kind': 'docs', 'vocab': 'default', 'count': 20000, 'depth': 4 + k % 3, 'name': 'ddoc%d' % k} for k in range(12)] + \
           [{'kind': 'docs', 'vocab': 'custom', 'count': 20000, 'depth': 4 + k % 3, 'name': 'cdoc%d' % k, 'cb': 300 * k} for k in range(12)] + \
           [{'kind': 'soup', 'count': 40000, 'name': 'soup%d' % k} for k in range(8)] + \
           [{'kind': 'nlargs', 'count': 30000, 'name': 'nlargs%d' % k} for k in range(4)]


def floors(tier):
    return {'evaluations': 15000, 'distinct_nontrivial': 4000, 'callbacks_checked': 200000,
            'none_placeholders_seen': 2000, 'histkeys:callback': 9, 'trees_with_none_body_or_args': 50,
            'empty_nodelist_arguments_seen': 500, 'nonempty_nodelist_arguments_seen': 500,
            'catch_all_visitor_runs': 5000, 'argument_lists_counted': 20000, 'visitor_runs_with_none_results': 3000, 'revisited_after_legacy_reads': 3000, 'recovered_trees_of_truncated_documents': 1000, 'present_optional_delimited_arguments': 1000, 'recomposer_runs': 5000, 'legacy_attribute_reads': 3000, 'histkeys:catch_all_for': 9, 'hist:catch_all_for:visit_specials_node': 200}


def setup(rec):
    pass


class Recording(N.LatexNodesVisitor):
    none_for = frozenset()

    def __init__(self):
        self.log = []

    def _rec(self, name, obj, kw):
        tok = len(self.log) + 1
        self.log.append((name, obj, kw, tok))
        if name in self.none_for:
            return None
        return tok

    def visit_chars_node(self, node, **kw):
        return self._rec('visit_chars_node', node, kw)

    def visit_group_node(self, node, **kw):
        return self._rec('visit_group_node', node, kw)

    def visit_comment_node(self, node, **kw):
        return self._rec('visit_comment_node', node, kw)

    def visit_macro_node(self, node, **kw):
        return self._rec('visit_macro_node', node, kw)

    def visit_environment_node(self, node, **kw):
        return self._rec('visit_environment_node', node, kw)

    def visit_specials_node(self, node, **kw):
        return self._rec('visit_specials_node', node, kw)

    def visit_math_node(self, node, **kw):
        return self._rec('visit_math_node', node, kw)

    def visit_node_list(self, nodes, **kw):
        return self._rec('visit_node_list', nodes, kw)

    def visit_parsed_arguments(self, pa, **kw):
        return self._rec('visit_parsed_arguments', pa, kw)

    def visit_unknown_node(self, node, **kw):
        return self._rec('visit_unknown_node', node, kw)


_KIND_METHODS = ['visit_chars_node', 'visit_group_node', 'visit_comment_node', 'visit_macro_node',
                 'visit_environment_node', 'visit_specials_node', 'visit_math_node', 'visit_node_list',
                 'visit_parsed_arguments', 'visit_unknown_node']
_PARTIAL = {}


def partial_visitor(mask):
    """A visitor written the other documented way: only the per-kind callbacks in `mask` are reimplemented, everything
    else arrives at the catch-all visit()."""
    if mask not in _PARTIAL:
        def visit(self, node, **kw):
            return self._rec('visit', node, kw)
        d = {'visit': visit, 'log': None, 'none_for': frozenset(),
             '_rec': Recording._rec, '__init__': Recording.__init__}
        for i, m in enumerate(_KIND_METHODS):
            if mask >> i & 1:
                d[m] = Recording.__dict__[m]
        _PARTIAL[mask] = type('Partial%d' % mask, (N.LatexNodesVisitor,), d)
    return _PARTIAL[mask]()


class Ref(object):
    """Reference post-order traversal from the documentation."""
    def __init__(self, rec, none_for=()):
        self.order = []      # (callback name, object, expected kwargs)
        self.rec = rec
        self.none_for = set(none_for)   # callbacks of the visitor under test that return None
        self.none_seen = 0
        self.odd = False

    def lst(self, nl, default):
        if nl is None:
            self.odd = True
            return default
        out = []
        for x in nl:
            if x is None:
                self.none_seen += 1
                out.append(None)
            else:
                if isinstance(x, N.LatexNodeList):
                    # a node-list valued argument: visited like any other child, even when empty
                    self.rec.monitor('empty_nodelist_arguments_seen' if len(x) == 0
                                     else 'nonempty_nodelist_arguments_seen')
                out.append(self.visit(x))
        return out

    def args(self, node):
        nad = getattr(node, 'nodeargd', None)
        if nad is None:
            self.odd = True
            return None, False
        return self.visit(nad), True

    def visit(self, obj):
        if isinstance(obj, N.LatexNodeList):
            kw = {'visited_results_nodelist': self.lst(obj.nodelist, [])}
            name = 'visit_node_list'
        elif isinstance(obj, ParsedArguments):
            if obj.argnlist is None:
                self.odd = True
            kw = {'visited_results_argnlist': self.lst(obj.argnlist, None)}
            name = 'visit_parsed_arguments'
        else:
            k = canon.kind(obj)
            name = CALLBACK_FOR.get(k, 'visit_unknown_node')
            if k in ('chars', 'comment'):
                kw = {}
            elif k == 'group':
                kw = {'visited_results_nodelist': self.lst(obj.nodelist, [])}
            elif k == 'math':
                kw = {'visited_results_nodelist': self.lst(obj.nodelist, [])}
            elif k in ('macro', 'specials'):
                a, has = self.args(obj)
                kw = {'visited_results_arguments': a} if has else {'visited_results_arguments': ANY}
            elif k == 'env':
                a, has = self.args(obj)
                kw = {'visited_results_arguments': a if has else ANY,
                      'visited_results_body': self.lst(obj.nodelist, [])}
            else:
                kw = {}
        self.order.append((name, obj, kw))
        if name in self.none_for:
            return None         # a callback may return None; the parent is handed that None at the child's place
        return len(self.order)


class _Any(object):
    def __repr__(self):
        return '<anything>'


ANY = _Any()


def kw_equal(want, got):
    if set(want) != set(got):
        return False
    for k in want:
        if want[k] is ANY:
            continue
        w, g = want[k], got[k]
        if w is None or g is None:
            # a missing body/argument list: None or an empty list are both "nothing visited"
            if (w in (None, [])) and (g in (None, [])):
                continue
            return False
        if w != g:
            return False
    return True


def check_tree(root, rec, mask=None, none_for=()):
    v = Recording() if mask is None else partial_visitor(mask)
    if none_for:
        v.none_for = frozenset(none_for)
        rec.monitor('visitor_runs_with_none_results')
    if mask is not None:
        rec.monitor('catch_all_visitor_runs')
    try:
        v.start(root)
    except Exception as e:
        import traceback
        return 'visitor raised %s: %s [%s]' % (type(e).__name__, e, traceback.format_exc().splitlines()[-3].strip()), None
    r = Ref(rec, none_for)
    r.visit(root)
    got = v.log
    want = r.order
    rec.monitor('callbacks_checked', len(got))
    rec.monitor('none_placeholders_seen', r.none_seen)
    if r.odd:
        rec.monitor('trees_with_none_body_or_args')
    kinds = set()
    # "absent optional arguments appear as None placeholders": an arguments object has one entry per declared argument
    for i, (gname, gobj, gkw, gtok) in enumerate(got):
        if isinstance(gobj, ParsedArguments) and gobj.argnlist is not None and gobj.arguments_spec_list is not None:
            rec.monitor('argument_lists_counted')
            # an optional delimited argument ('[', 'o', 'd<open><close>') that is not written is None, nothing else: whatever
            # stands in its slot starts with the opening delimiter in the source
            for aspec, entry in zip(gobj.arguments_spec_list, gobj.argnlist):
                pspec = getattr(aspec, 'parser', None)
                if isinstance(pspec, str) and (pspec in ('[', 'o') or (pspec[:1] == 'd' and len(pspec) == 3)) and entry is not None:
                    opener = '[' if pspec in ('[', 'o') else pspec[1]
                    rec.monitor('present_optional_delimited_arguments')
                    src = getattr(getattr(entry, 'latex_walker', None), 's', None)
                    epos = getattr(entry, 'pos', None)
                    ok = isinstance(entry, N.LatexGroupNode) and entry.delimiters[0] == opener and \
                        (src is None or not isinstance(epos, int) or src[epos:epos + len(opener)] == opener)
                    if not ok:
                        return 'callback %d: the slot of the optional argument %r holds %s although no %r is written there: ' \
                               'an absent optional argument must be a None placeholder' % (i, pspec, _d(entry), opener), None
            if len(gobj.argnlist) != len(gobj.arguments_spec_list):
                return 'callback %d: the arguments object holds %d entries for %d declared arguments (%s): a placeholder ' \
                       'for an absent argument is missing' % (i, len(gobj.argnlist), len(gobj.arguments_spec_list),
                                                               canon.short(list(gobj.argnlist))[:100]), None
    # exactly once: no object may receive two callbacks (an object shared between two parents is reachable twice)
    seen = {}
    for i, (gname, gobj, gkw, gtok) in enumerate(got):
        if gobj is None:
            continue
        if id(gobj) in seen:
            return 'callbacks %d and %d visit the same object %s (%s): it is reachable from two places of the tree' % (
                seen[id(gobj)], i, _d(gobj), gname), None
        seen[id(gobj)] = i
    for i in range(max(len(got), len(want))):
        if i >= len(got):
            return 'object %d (%s of %s) was never visited; %d callbacks, expected %d' % (
                i, want[i][0], type(want[i][1]).__name__, len(got), len(want)), None
        if i >= len(want):
            return 'extra callback %d: %s on %s (visited twice or unreachable)' % (
                i, got[i][0], type(got[i][1]).__name__), None
        gname, gobj, gkw, gtok = got[i]
        wname, wobj, wkw = want[i]
        rec.hist('callback', gname)
        kinds.add(gname)
        if gobj is not wobj:
            return 'callback %d visits %s, the post-order traversal expects %s' % (i, _d(gobj), _d(wobj)), None
        if gname == 'visit' and mask is not None and not (mask >> _KIND_METHODS.index(wname) & 1):
            rec.hist('catch_all_for', wname)
        elif gname != wname:
            return 'callback %d: %s called for %s, expected %s' % (i, gname, _d(gobj), wname), None
        if not kw_equal(wkw, gkw):
            return 'callback %d (%s on %s) received %r, expected the children results %r' % (
                i, gname, _d(gobj), gkw, wkw), None
    check_tree.last_log = [(gname, id(gobj)) for gname, gobj, gkw, gtok in got]
    return None, (len(got), len(kinds))


_REC_RECOMPOSER = []


def recording_recomposer():
    """The library's own visitor client (LatexNodesLatexRecomposer, which replaces the standard processing of every node kind
    by its recompose_* hooks) with every node_standard_process_* call logged on return: (kind, object), children first."""
    if not _REC_RECOMPOSER:
        from pylatexenc.latexnodes import LatexNodesLatexRecomposer

        def wrap(name):
            def f(self, obj, *a, **kw):
                r = getattr(LatexNodesLatexRecomposer, name)(self, obj, *a, **kw)
                self.log.append((name, obj))
                return r
            return f
        d = {n: wrap(n) for n in dir(LatexNodesLatexRecomposer) if n.startswith('node_standard_process_')}
        d['__init__'] = lambda self: (LatexNodesLatexRecomposer.__init__(self), setattr(self, 'log', []))[0]
        _REC_RECOMPOSER.append(type('RecordingRecomposer', (LatexNodesLatexRecomposer,), d))
    return _REC_RECOMPOSER[0]()


def check_recomposer(root, rec):
    v = recording_recomposer()
    try:
        out = v.start(root)
    except Exception as e:
        import traceback
        return 'LatexNodesLatexRecomposer raised %s: %s [%s]' % (type(e).__name__, e, traceback.format_exc().splitlines()[-3].strip())
    r = Ref(rec, ())
    r.visit(root)
    want = [o for (_, o, _) in r.order if o is not None]
    got = [o for (_, o) in v.log if o is not None]
    rec.monitor('recomposer_runs')
    rec.monitor('recomposer_objects_checked', len(got))
    for i in range(max(len(got), len(want))):
        if i >= len(got):
            return 'LatexNodesLatexRecomposer never processed object %d of the tree (%s); %d processed, %d reachable' % (
                i, _d(want[i]), len(got), len(want))
        if i >= len(want):
            return 'LatexNodesLatexRecomposer processed an extra object %s' % _d(got[i])
        if got[i] is not want[i]:
            return 'LatexNodesLatexRecomposer processed %s as object %d, the post-order traversal expects %s' % (
                _d(got[i]), i, _d(want[i]))
    if not isinstance(out, str):
        return 'LatexNodesLatexRecomposer returned %s, not a string' % type(out).__name__
    return None


def legacy_reads(nl, rec, how):
    """What pylatexenc-1/2 style code does with a parsed tree between two traversals: reading the legacy views of the
    arguments (nodeoptarg, nodeargs, nodeargd) of every macro/environment node, or converting the tree to text."""
    if how == 'l2t':
        from pylatexenc.latex2text import LatexNodes2Text
        try:
            LatexNodes2Text().nodelist_to_text(nl)
        except Exception:
            rec.monitor('legacy_text_conversion_raised')
        return
    for n in canon.walk(nl):
        if isinstance(n, (N.LatexMacroNode, N.LatexEnvironmentNode, N.LatexSpecialsNode)):
            for a in ('nodeoptarg', 'nodeargs', 'optargs', 'args', 'envname', 'macroname'):
                try:
                    getattr(n, a, None)
                except Exception:
                    rec.monitor('legacy_attribute_raised')
            rec.monitor('legacy_attribute_reads')


def _d(o):
    if isinstance(o, N.LatexNodeList):
        return 'list' + canon.short(o)[:60]
    if isinstance(o, ParsedArguments):
        return 'ParsedArguments'
    return canon.short(o)[:60]


def check_case(case, rec):
    s = case['s']
    ctx = work.ctx_for(case.get('ctx'))
    try:
        nl = parse(s, ctx=ctx, tolerant=case.get('tolerant', False))
    except Exception:
        rec.monitor('unparsable')
        if case.get('tolerant', False):
            return
        # "any parsed tree": what tolerant parsing makes of it is a tree too
        try:
            nl = parse(s, ctx=ctx, tolerant=True)
            rec.monitor('recovered_trees_of_rejected_documents')
        except Exception:
            return
    if nl is None:
        return
    err, info = check_tree(nl, rec)
    if not err and info and info[0] >= 5 and info[1] >= 3:
        rec.nontrivial(s)
    if not err and case.get('recomposer', True) and len(s) % 2 == 0:
        err = check_recomposer(nl, rec)
    if not err and case.get('legacy'):
        # the same tree visited again after pylatexenc-2 style code has looked at it: same callbacks on the same objects
        first = check_tree.last_log
        before = canon.canon(nl)
        legacy_reads(nl, rec, case['legacy'])
        rec.monitor('revisited_after_legacy_reads')
        if canon.canon(nl) != before:
            err = 'reading the tree through the legacy interface (%s) altered it' % case['legacy']
        else:
            err, _ = check_tree(nl, rec)
            if not err and check_tree.last_log != first:
                err = 'second traversal differs from the first (%d vs %d callbacks)' % (len(check_tree.last_log), len(first))
            if err:
                err = 'traversal after reading the tree through the legacy interface (%s): %s' % (case['legacy'], err)
    if not err and case.get('none_for'):
        err, _ = check_tree(nl, rec, none_for=case['none_for'])
        if err:
            err = 'visitor whose callbacks %s return None: %s' % (sorted(case['none_for']), err)
    if not err and case.get('mask') is not None:
        err, _ = check_tree(nl, rec, mask=case['mask'])
        if err:
            err = 'visitor reimplementing only %s plus the catch-all visit(): %s' % (
                [m for i, m in enumerate(_KIND_METHODS) if case['mask'] >> i & 1], err)
    if not err and case.get('subtrees'):
        for n in list(canon.walk(nl))[:6]:
            err, _ = check_tree(n, rec)
            if err:
                err = 'started on a sub-node: ' + err
                break
    if err:
        rec.violation(case, '%s | source %r | tree %s' % (err, s, canon.short(nl)[:400]), mech=err.split(':')[0][:40])


def shrink(v):
    from ..util import ddmin_string
    case = dict(v['case'])
    if case.get('ctx') and case['ctx'].get('vocab') == 'custom' and not case.get('tolerant'):
        return v

    def fails(x):
        r = Recorder()
        check_case(dict(case, s=x, tolerant=True), r)
        return r.n_violations > 0
    s2 = ddmin_string(case['s'], fails, max_tests=200)
    r = Recorder()
    check_case(dict(case, s=s2, tolerant=True), r)
    return r.violations[0] if r.violations else v


def run_shard(desc, rec):
    rng = rng_for(desc)
    if desc['kind'] == 'nlargs':
        atoms = work.NLARGS_ATOMS
        for i in range(desc['count']):
            s = ''.join(rng.choice(atoms) for _ in range(rng.randint(1, 7)))
            rec.case()
            if i % 500 == 0:
                rec.sample(s)
            check_case({'s': s, 'ctx': {'vocab': 'nlargs'}, 'tolerant': bool(i % 2), 'subtrees': i % 7 == 0,
                        'mask': (0 if i % 4 == 0 else rng.randrange(1 << 10)) if i % 2 else None,
                        'legacy': [None, 'attrs', None, 'l2t'][i % 4] if i % 5 < 3 else None,
                        'none_for': rng.sample(_KIND_METHODS, rng.randint(1, 4)) if i % 3 == 0 else None}, rec)
        return
    if desc['kind'] == 'soup':
        for i, s in enumerate(work.soups(rng, desc['count'])):
            rec.case()
            if i % 600 == 0:
                rec.sample(s)
            check_case({'s': s, 'tolerant': True, 'subtrees': i % 10 == 0,
                        'mask': (0 if i % 4 == 0 else rng.randrange(1 << 10)) if i % 2 == 0 else None,
                        'legacy': [None, 'attrs', None, 'l2t'][i % 4] if i % 5 < 3 else None,
                        'none_for': rng.sample(_KIND_METHODS, rng.randint(1, 4)) if i % 3 == 0 else None}, rec)
    else:
        src = work.DocSource(rng, desc['vocab'], depth=desc['depth'], cover_base=desc.get('cb', 0))
        for i in range(desc['count']):
            s, ast, bounds, vocab, db, cdesc = src.next()
            rec.case()
            if i % 300 == 0:
                rec.sample(s)
            check_case({'s': s, 'ctx': cdesc, 'tolerant': False, 'subtrees': i % 10 == 0,
                        'mask': (0 if i % 4 == 0 else rng.randrange(1 << 10)) if i % 2 == 0 else None,
                        'legacy': [None, 'attrs', None, 'l2t'][i % 4] if i % 5 < 3 else None,
                        'none_for': rng.sample(_KIND_METHODS, rng.randint(1, 4)) if i % 3 == 0 else None}, rec)
            # "any parsed tree": the same document cut off somewhere (inside an argument, a verbatim environment, a formula)
            # and recovered by tolerant parsing
            if i % 2 == 0:
                for _ in range(2):
                    cut = rng.randint(1, max(1, len(s) - 1))
                    rec.case()
                    rec.monitor('recovered_trees_of_truncated_documents')
                    check_case({'s': s[:cut], 'ctx': cdesc, 'tolerant': True}, rec)


LEVEL_TEXT = ('Exploration with a reference traversal: a recording visitor (one unique token per callback) is started on '
              'thousands of trees produced by the real parser (generated documents in default and custom contexts, and '
              'tolerant parses of soups, which contain None bodies and missing argument objects) and its callback log is '
              'compared callback by callback, by object identity and by keyword arguments, with an independent '
              'post-order traversal written from the LatexNodesVisitor documentation.')
LEVEL_NOTE = ('Trusted: the 60-line reference traversal; a missing body/argument list may be reported as None or as an '
              'empty list (both mean nothing was visited).')
TECHNIQUE = 'runtime monitoring: recorded callback trace checked against an independent reference post-order traversal over parsed trees'
