"""C09 - parsing is a pure function of input, context and flags.

Refuting events: the canonical dump of a parse performed inside a history of
other parses (same process, same context database, same globally cached
argument parsers, optionally the same parser object) differs from the dump of
the same parse performed as the only parse of a fresh interpreter; a parse
changes the context database it was given (categories, which spec object each
name maps to, the specs' own state, frozen flag, unknown specs).

Oracle: dumps compared across processes (one fresh subprocess per distinct
(document, context, flags)); deep public-API snapshot of the database before and
after every parse.
"""
import sys, os, json, subprocess, itertools
from ..shard import rng_for
from .. import work
from ..gen import doc as D
from ..c09worker import one_parse
from ..rec import Recorder

PROPERTY = 'C09'
LEVEL = 'exploration'
RULE = ('histories of 10-40 parse calls (random interleavings of 8-14 documents, plus all 6 orderings of document '
        'triples) in one process sharing the default context, one generated custom context that uses every standard '
        'argument type (incl. nested / unterminated verbatim arguments), or a context with an auto-named first category '
        'and a \\newcommand-like macro that extends the context while parsing; strict and tolerant, including documents '
        'that fail; every call is compared with the same call made as the only parse of a fresh interpreter. '
        'Non-trivial = history position >= 2 whose document has >= 3 node kinds or fails; distinct = distinct '
        '(history prefix hash, document, flags).')
EXHAUSTIVE = {'quick': False, 'thorough': False}
ASSUMPTIONS = ['custom contexts are rebuilt deterministically from their seed in the fresh interpreter',
               'canonical dumps contain no object identities (vpl/mon/canon.py)',
               'LatexWalker freezing the database it is given is documented behaviour, not a modification']
SHARD_TIMEOUT = {'quick': 900, 'thorough': 3600}

ROOT = os.path.dirname(os.path.dirname(os.path.dirname(os.path.abspath(__file__))))

SPECIAL_CUSTOM = ['\\tens^{a}_{b} and', 'x \\tens_{c}^{d} y', '\\tens^a', '\\tens z', '\\tens_b^c_d', '\\vv{a{b}c}', '\\vv{a{b', '\\vv|x|', '\\vv{', '\\vvb{x}{a{b}c}y', '\\vv{{{', 'a\\vv{x}b\\vv{p{q}r}c',
                  '\\vvb{\\vv{u{v}w}}{z}', '\\txt{a $b$ c}', '$\\txt{a}$', '\\begin{mathenv}x\\end{mathenv}',
                  'x \\\\ [y] z', 'x \\\\[y] z', '\\txto [a]{b}', '\\txto[a]{b}']
SPECIAL_DEFS = ['\\defmacro{foo} \\foo{x} y', 'Here \\foo{x} is not defined.', '{\\defmacro{bar}\\bar{1}} \\bar{2}',
                '\\defmacro{foo}\\defmacro{baz}\\baz{\\foo{q}}r', '\\baz{a}{b}', '\\begin{fooenv}[o]x\\end{fooenv}',
                '\\defmacro{foo}\\begin{fooenv}[o]x\\end{fooenv}', '$\\defmacro{qq}\\qq{1}$ \\qq{2}', '\\bar{1}\\qq{2}']
SPECIAL_DEFAULT = ['\\verb|a{b|', '\\begin{verbatim}{{\\end{verbatim}', '\\begin{lstlisting}[a=b]{\\end{lstlisting}',
                   '\\textbf{a', 'a}b', '$x', '\\begin{itemize}\\item a', '\\newcommand\\foo[1]{x#1}', '\\\\*[2pt]a',
                   '\\cite[a][b]{k}', '\\section*{t}',
                   # the same kind of argument read under different whitespace rules (line-break macro vs ordinary calls)
                   'a \\\\ [x] b', 'a \\\\[2mm] b', '\\section [s]{t}', '\\begin{enumerate} [(i)]\\item a\\end{enumerate}',
                   '\\cite[see] [p. 3]{k}', '\\sqrt [3]{x}', '\\sqrt[3]{x}',
                   # a long flat document and a short, deeply nested one (the latter exhausts the recursion limit)
                   'word ' * 500, '{' * 220 + 'x' + '}' * 220, '\\textbf{' * 70 + 'y' + '}' * 70]
# documents whose reading depends on which of them instantiated a shared argument parser first: all orderings are run
ORDER_SENSITIVE = {'default': ['a \\\\ [x] b', '\\sqrt[3]{x}', '\\cite[see] [p. 3]{k}'],
                   'custom': ['x \\\\ [y] z', '\\txto [a]{b}', 'x \\\\[y] \\txto[a]{b}']}


def plan(tier, seed):
    kinds = ['default', 'custom', 'defs', 'custom']
    if tier == 'quick':
        return [{'vocab': kinds[k % 4], 'histories': 3, 'maxlen': 24, 'ndocs': 10,
                 'name': 'hist%d' % k} for k in range(16)] + \
               [{'vocab': 'nlargs', 'histories': 3, 'maxlen': 24, 'ndocs': 12, 'name': 'pclass%d' % k} for k in range(2)]
    return [{'vocab': kinds[k % 4], 'histories': 10, 'maxlen': 40, 'ndocs': 14,
             'name': 'hist%d' % k} for k in range(32)] + \
           [{'vocab': 'nlargs', 'histories': 10, 'maxlen': 40, 'ndocs': 16, 'name': 'pclass%d' % k} for k in range(6)]


def floors(tier):
    return {'evaluations': 1500, 'distinct_nontrivial': 300, 'fresh_interpreter_references': 150,
            'history_calls_compared': 1500, 'db_snapshots_compared': 1500, 'hist:mode:strict': 300,
            'hist:mode:tolerant': 300, 'hist:outcome:parse_error': 30, 'verbatim_arg_documents': 10,
            'context_extending_documents': 9, 'parses_with_shared_parser_object': 200,
            'parser_class_context_documents': 50, 'order_sensitive_triples': 4, 'parses_on_a_used_walker_object': 200, 'parses_from_configured_start_state': 100,
            'parses_with_a_database_extended_between_parses': 200}


def setup(rec):
    pass


START_STATES = work.PS_CONFIGS + [
    {'latex_inline_math_delimiters': [['$', '$'], ['\\(', '\\)'], ['$$', '$$']], 'latex_display_math_delimiters': [['\\[', '\\]']]},
    {'latex_inline_math_delimiters': [['$', '$']], 'latex_display_math_delimiters': [['\\(', '\\)'], ['$$', '$$'], ['\\[', '\\]']]},
    {'latex_inline_math_delimiters': [], 'latex_display_math_delimiters': [['$', '$'], ['\\(', '\\)'], ['$$', '$$'], ['\\[', '\\]']]},
    {'latex_group_delimiters': [['{', '}'], ['<', '>']], 'enable_comments': False},
]


def fresh_reference(req):
    env = dict(os.environ)
    p = subprocess.run([sys.executable, '-B', '-m', 'vpl.c09worker'], input=json.dumps(req).encode(),
                       stdout=subprocess.PIPE, stderr=subprocess.PIPE, timeout=120, cwd=ROOT, env=env)
    if p.returncode != 0:
        raise RuntimeError('reference interpreter failed: ' + p.stderr.decode()[-400:])
    return json.loads(p.stdout.decode())


def db_snapshot(db):
    """Deep snapshot through the public API."""
    if db is None:
        from ..util import default_ctx
        db = default_ctx()
    # note: LatexWalker freezes the database it is given (documented in LatexContextDb.freeze()), so the
    # frozen flag is not part of the snapshot
    snap = {'cats': list(db.categories())}
    for cat in db.categories():
        snap[cat] = {
            'm': [(sp.macroname, id(sp), _state(sp)) for sp in db.iter_macro_specs(categories=[cat])],
            'e': [(sp.environmentname, id(sp), _state(sp)) for sp in db.iter_environment_specs(categories=[cat])],
            's': [(sp.specials_chars, id(sp), _state(sp)) for sp in db.iter_specials_specs(categories=[cat])],
        }
    snap['unknown'] = (id(db.get_macro_spec('\x00nonexistent')), id(db.get_environment_spec('\x00nonexistent')),
                       id(db.get_specials_spec('\x00nonexistent')))
    return snap


def _state(sp):
    d = getattr(sp, '__dict__', {})
    out = []
    for k in sorted(d):
        v = d[k]
        if isinstance(v, (str, int, float, bool, type(None))):
            out.append((k, v))
        elif isinstance(v, (list, tuple)):
            out.append((k, len(v), tuple(id(x) if not isinstance(x, (str, int)) else x for x in v)))
        else:
            out.append((k, id(v), _shallow(v)))
    return tuple(out)


def _shallow(v):
    d = getattr(v, '__dict__', None)
    if not isinstance(d, dict):
        return None
    return tuple((k, d[k]) for k in sorted(d) if isinstance(d[k], (str, int, float, bool, type(None))))


PROCESS_LOG = []        # every parse call made in this process, in order: [s, tolerant, ctx description]


def interpreter_state():
    """Settings of the interpreter that a parse has no business changing (its result would then depend on what ran
    before it)."""
    import sys, os, locale, decimal, threading
    return {'recursionlimit': sys.getrecursionlimit(), 'cwd': os.getcwd(), 'sys.path': len(sys.path),
            'switchinterval': sys.getswitchinterval(), 'locale': locale.setlocale(locale.LC_ALL),
            'decimal.prec': decimal.getcontext().prec, 'threads': threading.active_count(),
            'warnings.filters': len(__import__('warnings').filters), 'trace': sys.gettrace() is not None,
            'umask-free-env': os.environ.get('PYTHONHASHSEED')}


def check_case(case, rec, refs=None):
    """case: {'ctx': default desc, 'calls': [[doc, tolerant(, ctx desc)], ...]}.  The calls are appended to
    the process-wide log; a violation is reported with the *whole* log so that a replay in a fresh
    interpreter sees the same history (state may leak across contexts through global caches)."""
    refs = refs if refs is not None else {}
    for i, call in enumerate(case['calls']):
        s, tol = call[0], call[1]
        cdesc = call[2] if len(call) > 2 else case['ctx']
        shared = bool(call[3]) if len(call) > 3 else bool(case.get('shared_parser'))
        psopts = call[4] if len(call) > 4 else None
        ctx = work.ctx_for(cdesc)
        key = (s, tol, json.dumps(cdesc, sort_keys=True), json.dumps(psopts, sort_keys=True))
        if key not in refs:
            try:
                refs[key] = fresh_reference({'s': s, 'ctx': cdesc, 'tolerant': tol, 'psopts': psopts})
                rec.monitor('fresh_interpreter_references')
            except Exception as e:
                rec.inconclusive_case('no reference for %r: %s' % (s, e))
                refs[key] = None
        ref = refs[key]
        before = db_snapshot(ctx)
        gbefore = interpreter_state()
        PROCESS_LOG.append([s, tol, cdesc, shared, psopts])
        if psopts:
            rec.monitor('parses_from_configured_start_state')
            rec.hist('start_state', json.dumps(psopts, sort_keys=True)[:80])
        reuse_walker = (len(PROCESS_LOG) % 5 == 0)
        if reuse_walker:
            rec.monitor('parses_on_a_used_walker_object')
        got = json.loads(json.dumps(one_parse({'s': s, 'ctx': cdesc, 'tolerant': tol,
                                               'shared_parser': shared, 'reuse_walker': reuse_walker,
                                               'psopts': psopts})))
        if shared:
            rec.monitor('parses_with_shared_parser_object')
        after = db_snapshot(ctx)
        gafter = interpreter_state()
        rec.monitor('db_snapshots_compared')
        rec.hist('mode', 'tolerant' if tol else 'strict')
        rec.hist('outcome', got['outcome'])
        if '\\vv' in s or '\\verb' in s:
            rec.monitor('verbatim_arg_documents')
        full = {'ctx': case.get('ctx'), 'calls': list(PROCESS_LOG), 'shared_parser': bool(case.get('shared_parser'))}
        if gbefore != gafter:
            rec.violation(full, 'parsing a %d-character input (call %d of the process, tolerant=%r) changed interpreter-wide '
                          'state: %r' % (len(s), len(PROCESS_LOG) - 1, tol,
                                         {k: (gbefore[k], gafter[k]) for k in gbefore if gbefore[k] != gafter[k]}),
                          mech='interpreter-state-modified')
            return
        if before != after:
            diff = [k for k in before if before[k] != after.get(k)]
            rec.violation(full, 'parsing %r (call %d of the process, tolerant=%r) modified the context database '
                          '(changed: %r)' % (s, len(PROCESS_LOG) - 1, tol, diff[:5]), mech='db-modified')
            return
        if ref is None:
            continue
        rec.monitor('history_calls_compared')
        if len(PROCESS_LOG) >= 2:
            rec.nontrivial((len(PROCESS_LOG), s, tol))
        if got != ref:
            rec.violation(full, 'call %d of the process: parsing %r (tolerant=%r) gives %s but the same parse in a '
                          'fresh interpreter gives %s | preceding calls %r'
                          % (len(PROCESS_LOG) - 1, s, tol, json.dumps(got)[:300], json.dumps(ref)[:300],
                             [c[:2] for c in PROCESS_LOG[-6:-1]]), mech='history-dependent')
            return


def growing_database_histories(rng, rec, count):
    """A database the caller keeps extending between parses (it stays unfrozen when it reaches the walker through a
    ParsingState): after every extension the next parse gives what a database that was built with all those categories from
    the start gives -- the same contents, the same input, the same flags."""
    from pylatexenc.latexwalker import LatexWalker
    from pylatexenc.latexnodes import ParsingState, LatexWalkerParseError as _PE
    from pylatexenc.latexnodes.parsers import LatexGeneralNodesParser
    from pylatexenc.macrospec import LatexContextDb, MacroSpec, EnvironmentSpec, SpecialsSpec
    from ..mon import canon
    CATS = [dict(macros=[('ma', '{')], specials=['~']), dict(macros=[('mb', '[{')], specials=['|', '||']),
            dict(environments=[('ea', '{')], specials=['--', '-->']), dict(macros=[('mc', '*{')], specials=['<<', '&']),
            dict(specials=['!', '?`', '@@'], macros=[('ma', '{{')]), dict(environments=[('eb', '')], macros=[('md', '')])]
    DOCS = ['a~b|c||d', 'x -- y --> z \\ma{p}{q}', '\\mb[o]{a} << b & c', '\\begin{ea}{t} u!v @@ ?` \\end{ea}', 'left|right and a',
            '\\mc*{s}\\md t\\begin{eb}w\\end{eb}', 'p||q --> r & s ! t']

    def build(cat_ids):
        db = LatexContextDb()
        for ci in cat_ids:
            add(db, ci)
        db.set_unknown_macro_spec(MacroSpec(''))
        db.set_unknown_environment_spec(EnvironmentSpec(''))
        return db

    def add(db, ci):
        c = CATS[ci]
        db.add_context_category('cat%d' % ci, macros=[MacroSpec(n, a) for n, a in c.get('macros', [])],
                                environments=[EnvironmentSpec(n, a) for n, a in c.get('environments', [])],
                                specials=[SpecialsSpec(x) for x in c.get('specials', [])], prepend=bool(ci % 2))

    def run(db, doc, tol):
        try:
            lw = LatexWalker(doc, default_parsing_state=ParsingState(s=doc, latex_context=db), tolerant_parsing=tol)
            nl, _ = lw.parse_content(LatexGeneralNodesParser())
            return ('ok', [canon.canon(n) for n in nl])
        except _PE as e:
            return ('err', getattr(e, 'pos', None), str(getattr(e, 'msg', ''))[:80])
        except Exception as e:
            return ('exc', type(e).__name__, str(e)[:80])
    for _ in range(count):
        order = rng.sample(range(len(CATS)), rng.randint(2, 5))
        db = build(order[:1])
        log = [('build', order[:1])]
        for k in range(1, len(order) + 1):
            for _ in range(rng.randint(1, 3)):
                doc, tol = rng.choice(DOCS), rng.random() < 0.5
                got = run(db, doc, tol)
                want = run(build(order[:k]), doc, tol)
                rec.case()
                rec.monitor('parses_with_a_database_extended_between_parses')
                log.append(('parse', doc, tol))
                if db.frozen:
                    rec.monitor('growing_database_got_frozen')
                if got != want:
                    rec.violation({'growing_database': log}, 'parsing %r (tolerant=%r) with a database that was extended between '
                                  'parses gives %s, a database built with the same categories from the start gives %s | history %r'
                                  % (doc, tol, json.dumps(got)[:300], json.dumps(want)[:300], log), mech='growing-database')
                    return
            if k < len(order):
                if db.frozen:
                    break
                add(db, order[k])
                log.append(('add', order[k]))


def run_shard(desc, rec):
    rng = rng_for(desc)
    refs_by_ctx = {}
    if desc['vocab'] == 'defs':
        growing_database_histories(rng, rec, 6 * desc['histories'])
    for h in range(desc['histories']):
        if desc['vocab'] == 'nlargs':
            # the context built from argument parser classes (comma-separated list, characters group, tack-on field
            # macros, markers returning full node lists, embellishments, any-delimiter arguments)
            cdesc = {'vocab': 'nlargs'}
            docs = list(work.nlargs_strings(rng, desc['ndocs']))
            rec.monitor('parser_class_context_documents', len(docs))
            refs = refs_by_ctx.setdefault(json.dumps(cdesc), {})
            calls = [[rng.choice(docs), rng.random() < 0.5] for _ in range(rng.randint(10, desc['maxlen']))]
            rec.case(len(calls))
            check_case({'ctx': cdesc, 'calls': calls, 'shared_parser': bool(h % 2)}, rec, refs)
            continue
        src = work.DocSource(rng, 'default' if desc['vocab'] == 'defs' else desc['vocab'], depth=4, per_vocab=10 ** 9,
                             cover_base=rng.randrange(1000))
        docs = []
        cdesc = None
        for _ in range(desc['ndocs']):
            s, ast, bounds, vocab, db, cdesc = src.next()
            docs.append(s)
        if desc['vocab'] == 'defs':
            cdesc = {'vocab': 'defs'}
            docs = docs[:4] + list(SPECIAL_DEFS)
            rec.monitor('context_extending_documents', len(SPECIAL_DEFS))
        else:
            docs += rng.sample(SPECIAL_CUSTOM if desc['vocab'] == 'custom' else SPECIAL_DEFAULT, 10)
        # some documents broken on purpose (they fail in strict mode / recover in tolerant mode)
        for _ in range(3):
            s = rng.choice(docs)
            cut = rng.randint(0, len(s))
            docs.append(s[:cut] + rng.choice(['}', '{', '$', '\\end{x}', '\\']) + s[cut:])
        refs = refs_by_ctx.setdefault(json.dumps(cdesc), {})
        L = rng.randint(10, desc['maxlen'])
        calls = [[rng.choice(docs), rng.random() < 0.5] for _ in range(L)]
        # "the same flags": some parses start from a configured parsing state (the same documents under the default one
        # are in the history too); among the configurations, math delimiter lists that classify the default pairs differently
        for c in calls:
            if rng.random() < 0.3:
                c += [cdesc, bool(h % 2), rng.choice(START_STATES)]
        rec.case(L)
        case = {'ctx': cdesc, 'calls': calls, 'shared_parser': bool(h % 2)}
        if h == 0:
            rec.sample({'ctx': cdesc, 'calls': calls[:4]})
        check_case(case, rec, refs)
        # all orderings of a triple, strict and tolerant
        triples = [rng.sample(docs, 3)]
        if h == 0 and desc['vocab'] in ORDER_SENSITIVE:
            triples.append(ORDER_SENSITIVE[desc['vocab']])
            rec.monitor('order_sensitive_triples')
        for triple in triples:
            for perm in itertools.permutations(triple):
                for tol in (False, True):
                    calls = [[d, tol] for d in perm]
                    rec.case(3)
                    check_case({'ctx': cdesc, 'calls': calls}, rec, refs)


LEVEL_TEXT = ('Exploration of call histories with cross-process differential: sequences of 10-40 parses (and all orderings of '
              'document triples) run in one process against a shared context database and the globally cached argument '
              'parsers; each result is compared with the canonical dump of the same parse done as the only parse of a '
              'fresh interpreter, and the database is snapshotted through its public API before and after every parse. '
              'Hidden mutable state is exactly what a history-vs-fresh comparison can observe.')
LEVEL_NOTE = ('Trusted: deterministic reconstruction of generated contexts from their seed; canonical dump. State that '
              'only leaks after more than 40 calls is out of reach.')
TECHNIQUE = 'runtime monitoring: history-vs-fresh-interpreter differential over parse-call histories + before/after context-database snapshots'
