"""C11 - tokenizer is lossless, always advances, and peeking has no effect.

Refuting events: peek_token() changes cur_pos(); a successful next_token() does
not move forward / leaves the reader elsewhere than at the token's end; the
concatenation pre_space + s[pos:pos_end] of the tokens read so far differs from
the consumed prefix of the input (and, at end of stream, with final_space, from
the whole input); more than len(s) successful reads; next_token() != the
preceding peek_token(); re-reading after move_to_token() gives a different
token; a token parse error escaping in tolerant mode.

Oracle: direct assertions on the real LatexTokenReader, plus the always-on
contracts (icontract) on peek_token / next_token.
"""
from pylatexenc.latexnodes import (
    LatexTokenReader, ParsingState, LatexWalkerEndOfStream, LatexWalkerTokenParseError, LatexTokenListTokenReader,
)
from ..gen import soup
from ..mon import contracts
from ..shard import rng_for
from ..util import default_ctx, ddmin_string

PROPERTY = 'C11'
LEVEL = 'exploration'
RULE = ('every string up to length L over a 22-symbol LaTeX-significant alphabet (exhaustive; L=3 quick, 4 '
        'thorough, with the 12-symbol core alphabet one longer) and random longer strings of atoms, each read '
        'token by token under ~40 parsing-state configurations (math mode x delimiter, each enable_* switch off, '
        'extra group/math delimiters, paragraphs off, forbidden characters, other escape/comment characters, '
        'with/without context database) in strict and tolerant reading. Non-trivial = the run produced >= 2 '
        'tokens of >= 2 kinds; distinct = distinct (string, configuration, mode).')
EXHAUSTIVE = {'quick': False, 'thorough': False}
ASSUMPTIONS = ['token equality is compared on (tok, arg, pos, pos_end, pre_space, post_space)',
               'contracts backend: ' + contracts.BACKEND]

ALPHA22 = ['a', ' ', '\n', '{', '}', '$', '\\', '%', '[', ']', '~', '`', '-', '(', ')', 'b', 'e', 'g', 'i', 'n',
           'd', '&']
LONG_ATOMS = ALPHA22 + ['\\begin{a}', '\\end{a}', '\\begin', '\\begin{', '\\end{}', '\n\n', '\n \n', '$$', '\\(', '\\)',
                        '\\[', '\\]', '---', "''", '``', '!`', '?`', '\\\\', '\\%', '% c\n', '%', '\t', '\r', 'é',
                        '<', '>', '@', '!', '|', '\\x', '\\ab ', '\\@']


def configs():
    cfgs = []
    base = [
        {},
        {'in_math_mode': True, 'math_mode_delimiter': '$'},
        {'in_math_mode': True, 'math_mode_delimiter': '$$'},
        {'in_math_mode': True, 'math_mode_delimiter': '\\('},
        {'in_math_mode': True, 'math_mode_delimiter': '\\['},
        {'in_math_mode': True},
        {'enable_double_newline_paragraphs': False},
        {'enable_comments': False},
        {'enable_macros': False},
        {'enable_environments': False},
        {'enable_groups': False},
        {'enable_math': False},
        {'enable_specials': False},
        {'enable_macros': False, 'enable_environments': True},
        {'latex_group_delimiters': [('{', '}'), ('[', ']')]},
        {'latex_group_delimiters': [('(', ')')]},
        {'latex_inline_math_delimiters': [('$', '$'), ('|', '|')], 'latex_display_math_delimiters': [('<', '>')]},
        {'in_math_mode': True, 'math_mode_delimiter': '<',
         'latex_display_math_delimiters': [('<', '>'), ('\\[', '\\]')]},
        {'forbidden_characters': 'a$'},
        {'forbidden_characters': ['%', '\\', ' ']},
        {'macro_escape_char': '!', 'comment_start': '@'},
        {'macro_alpha_chars': 'ab@'},
        {'comment_start': '%%'},
    ]
    for with_ctx in (False, True):
        for kw in base:
            cfgs.append((with_ctx, kw))
    # a context database with every fallback configured (unknown macro / environment / specials specs) and one with
    # overlapping multi-character specials of its own
    for with_ctx in ('fallbacks', 'ownspecials'):
        for kw in (base[0], base[1], base[6], base[12], base[15], base[18]):
            cfgs.append((with_ctx, kw))
    # ... and a database that defines macros and specials but no paragraph-break specials
    for kw in (base[0], base[1], base[6], base[7]):
        cfgs.append(('noparagraphspecials', kw))
    return cfgs


_CTXS = {}


def context_for(with_ctx):
    if not with_ctx:
        return None
    if with_ctx is True:
        return default_ctx()
    if with_ctx not in _CTXS:
        from pylatexenc.macrospec import LatexContextDb, MacroSpec, EnvironmentSpec, SpecialsSpec
        if with_ctx == 'fallbacks':
            db = default_ctx()
            db2 = LatexContextDb()
            for cat in db.categories():
                db2.add_context_category(cat, macros=list(db.iter_macro_specs([cat])),
                                         environments=list(db.iter_environment_specs([cat])),
                                         specials=list(db.iter_specials_specs([cat])))
            db2.set_unknown_macro_spec(MacroSpec(''))
            db2.set_unknown_environment_spec(EnvironmentSpec(''))
            db2.set_unknown_specials_spec(SpecialsSpec(''))
            db2.freeze()
            _CTXS[with_ctx] = db2
        elif with_ctx == 'noparagraphspecials':
            db = LatexContextDb()
            db.add_context_category('s', macros=[MacroSpec('a', '{')], specials=[SpecialsSpec(x) for x in ('~', '--', '&')])
            db.freeze()
            _CTXS[with_ctx] = db
        else:
            db = LatexContextDb()
            db.add_context_category('s', macros=[MacroSpec('a', '{')], specials=[
                SpecialsSpec(x) for x in ('~', '--', '---', '``', "''", '&', 'ab', '<<', '!a', '\n\n', '$|')])
            db.set_unknown_specials_spec(SpecialsSpec('??'))
            db.freeze()
            _CTXS[with_ctx] = db
    return _CTXS[with_ctx]


CONFIGS = configs()


def plan(tier, seed):
    n = 16
    if tier == 'quick':
        return [{'k': k, 'n': n, 'L22': 3, 'L12': 4, 'nrand': 120, 'cfg_stride': 6, 'name': 'tok%d' % k} for k in range(n)]
    return [{'k': k, 'n': 32, 'L22': 4, 'L12': 5, 'nrand': 2500, 'cfg_stride': 2, 'name': 'tok%d' % k} for k in range(32)]


def floors(tier):
    return {'evaluations': 100000, 'distinct_nontrivial': 20000,
            'peek_token_does_not_move': 100000, 'next_token_advances': 100000,
            'rewind_checked': 100000, 'end_of_stream_reached': 20000,
            'char_level_calls_checked': 100000, 'resume_from_position_checked': 30000,
            'token_list_reader_replays': 20000, 'token_list_reader_repeated_tokens': 20000, 'strict_recovery_protocol_followed': 5000, 'end_of_stream_after_none_peek': 20000, 'rewind_without_pre_space_checked': 50000, 'histkeys:config': len(CONFIGS), 'hist:mode:tolerant': 10000, 'hist:mode:strict': 10000}


def setup(rec):
    contracts.install_reader_contracts()


def tokkey(t):
    arg = t.arg
    if not isinstance(arg, (str, type(None))):
        arg = ('obj', getattr(arg, 'specials_chars', None), type(arg).__name__)
    return (t.tok, arg, t.pos, t.pos_end, t.pre_space, getattr(t, 'post_space', None))


def read_all(s, with_ctx, kw, tol, rec):
    """Returns error message or None."""
    kw2 = dict(kw)
    for k in ('latex_group_delimiters', 'latex_inline_math_delimiters', 'latex_display_math_delimiters'):
        if k in kw2:
            kw2[k] = [tuple(x) for x in kw2[k]]
    ps = ParsingState(s=s, latex_context=context_for(with_ctx), **kw2)
    tr = LatexTokenReader(s, tolerant_parsing=tol)
    out = ''
    nreads = 0
    kinds = set()
    toks = []
    reached_eos = False
    recovered = False
    while True:
        p0 = tr.cur_pos()
        try:
            pk = tr.peek_token(ps)
        except LatexWalkerEndOfStream as e:
            if tr.cur_pos() != p0:
                return 'peek_token() at end of stream moved the reader %r -> %r' % (p0, tr.cur_pos())
            fs = getattr(e, 'final_space', None)
            if not isinstance(fs, str):
                return 'end of stream without final_space string (%r)' % (fs,)
            rec.monitor('end_of_stream_reached')
            if out + fs != s:
                return 'lossy: tokens+final_space reproduce %r instead of the input' % (out + fs,)
            reached_eos = True
            break
        except LatexWalkerTokenParseError as e:
            if tr.cur_pos() != p0:
                return 'failing peek_token() moved the reader %r -> %r' % (p0, tr.cur_pos())
            if tol:
                return 'token parse error escaped in tolerant mode at %r: %s' % (p0, e.msg)
            rec.monitor('strict_token_errors')
            # the documented way to go on after a token error in strict reading: take the recovery token carried by
            # the error and resume at the position it names (what the expression parser does); the reading then stays
            # lossless and agrees with tolerant reading
            rt, rp = getattr(e, 'recovery_token_placeholder', None), getattr(e, 'recovery_token_at_pos', None)
            if rt is None or not isinstance(rp, int):
                break
            rec.monitor('strict_recovery_protocol_followed')
            recovered = True
            if rp != rt.pos_end:
                return 'token error at %r names recovery position %r, its recovery token %r ends at %r' % (p0, rp, rt, rt.pos_end)
            if not (p0 <= rt.pos <= rt.pos_end <= len(s)) or rp <= p0:
                return 'token error at %r carries recovery token %r / position %r outside the remaining input' % (p0, rt, rp)
            tr.move_to_pos_chars(rp)
            out += rt.pre_space + s[rt.pos:rt.pos_end]
            if out != s[:rp]:
                return 'lossy: after the recovery token %r the tokens reproduce %r but the consumed input is %r' % (rt, out, s[:rp])
            nreads += 1
            if nreads > len(s):
                return 'more than len(input)=%d successful reads' % len(s)
            continue
        if tr.cur_pos() != p0:
            return 'peek_token() moved the reader %r -> %r (token %r)' % (p0, tr.cur_pos(), pk)
        tok = tr.next_token(ps)
        toks.append(tok)
        nreads += 1
        kinds.add(tok.tok)
        rec.hist('token_kind', tok.tok)
        if tokkey(tok) != tokkey(pk):
            return 'next_token() %r differs from the preceding peek_token() %r' % (tok, pk)
        p1 = tr.cur_pos()
        if p1 <= p0:
            return 'no progress: next_token() at %r left the reader at %r (token %r)' % (p0, p1, tok)
        if p1 != tok.pos_end:
            return 'reader at %r after next_token() but token.pos_end=%r (%r)' % (p1, tok.pos_end, tok)
        if not (p0 <= tok.pos <= tok.pos_end <= len(s)):
            return 'token span out of order/range: %r (read from %r)' % (tok, p0)
        out += tok.pre_space + s[tok.pos:tok.pos_end]
        if out != s[:p1]:
            return 'lossy: after token %r the tokens reproduce %r but the consumed input is %r' % (tok, out, s[:p1])
        if nreads > len(s):
            return 'more than len(input)=%d successful reads' % len(s)
        # go back and read again
        tr.move_to_token(tok)
        if tr.cur_pos() != p0:
            return 'move_to_token() went to %r, the token was read from %r' % (tr.cur_pos(), p0)
        try:
            tok2 = tr.next_token(ps)
        except Exception as e:
            return 're-reading after move_to_token() raised %r' % (e,)
        rec.monitor('rewind_checked')
        if tokkey(tok2) != tokkey(tok):
            return 're-read token %r differs from first read %r' % (tok2, tok)
        if tr.cur_pos() != p1:
            return 're-read left the reader at %r instead of %r' % (tr.cur_pos(), p1)
    if nreads >= 2 and len(kinds) >= 2:
        rec.nontrivial((s, with_ctx, sorted(kw.items(), key=str), tol))
    if recovered:
        return None         # the second pass re-reads every position with plain calls, which raise again in strict reading
    return second_pass(s, ps, tol, toks, rec, reached_eos=reached_eos)


def second_pass(s, ps, tol, toks, rec, reached_eos=False):
    """The other reader entry points on the same input: peek_token_or_none / move_past_token, the character-level
    calls, resuming from a position, and the token-list reader fed with the tokens just read."""
    tr = LatexTokenReader(s, tolerant_parsing=tol)
    for i, tok in enumerate(toks):
        p0 = tr.cur_pos()
        # character-level peeks do not move; reads return what the peek showed and move by that much
        k = 1 + (i % 3)
        pc = tr.peek_chars(k, ps)
        if pc != s[p0:p0 + k] or tr.cur_pos() != p0:
            return 'peek_chars(%d) at %d gives %r / moves to %r (input slice %r)' % (k, p0, pc, tr.cur_pos(), s[p0:p0 + k])
        sp = tr.peek_space_chars(ps)
        if tr.cur_pos() != p0:
            return 'peek_space_chars() moved the reader %r -> %r' % (p0, tr.cur_pos())
        if sp[0] != s[sp[1]:sp[2]] or sp[1] != p0 or sp[0].strip() != '':
            return 'peek_space_chars() at %d returns %r, not a whitespace run starting there' % (p0, sp)
        if not tok.pre_space.startswith(sp[0]) and not sp[0].startswith(tok.pre_space):
            return 'peek_space_chars() at %d sees %r but the next token has pre_space %r' % (p0, sp[0], tok.pre_space)
        rec.monitor('char_level_calls_checked')
        if i % 2:
            sk = tr.skip_space_chars(ps)
            if tuple(sk) != tuple(sp) or tr.cur_pos() != sp[2]:
                return 'skip_space_chars() at %d returns %r and leaves the reader at %r; peek_space_chars() gave %r' % (
                    p0, sk, tr.cur_pos(), sp)
            tr.move_to_pos_chars(p0)
        if i % 3 == 0:
            nc = tr.next_chars(k, ps)
            if nc != pc or tr.cur_pos() != min(p0 + k, len(s)):
                return 'next_chars(%d) at %d gives %r and leaves the reader at %r' % (k, p0, nc, tr.cur_pos())
            tr.move_to_pos_chars(p0)
        if tr.cur_pos() != p0:
            return 'move_to_pos_chars(%d) left the reader at %r' % (p0, tr.cur_pos())
        pk = tr.peek_token_or_none(ps)
        if pk is None or tokkey(pk) != tokkey(tok) or tr.cur_pos() != p0:
            return 'peek_token_or_none() at %d gives %r (reader now at %r); the first pass read %r there' % (
                p0, pk, tr.cur_pos(), tok)
        # a reader has no state but its position: a fresh reader moved here reads the same token
        if i % 4 == 0:
            tr2 = LatexTokenReader(s, tolerant_parsing=tol)
            tr2.move_to_pos_chars(p0)
            t2 = tr2.next_token(ps)
            rec.monitor('resume_from_position_checked')
            if tokkey(t2) != tokkey(tok):
                return 'a fresh reader moved to %d reads %r, the first pass read %r there' % (p0, t2, tok)
        # going back to the token itself (not to the whitespace before it): same token, read without its leading space
        if i % 3 == 1:
            tr.move_to_token(pk, rewind_pre_space=False)
            if tr.cur_pos() != tok.pos:
                return 'move_to_token(rewind_pre_space=False) went to %r, the token starts at %r' % (tr.cur_pos(), tok.pos)
            t3 = tr.peek_token_or_none(ps)
            rec.monitor('rewind_without_pre_space_checked')
            if t3 is None or (t3.tok, t3.pos, t3.pos_end) != (tok.tok, tok.pos, tok.pos_end) or t3.pre_space != '':
                # a paragraph break is made of whitespace: read from its own start it is still the same token
                return 're-read after move_to_token(rewind_pre_space=False) gives %r, first read %r' % (t3, tok)
        # leaving the token without its trailing whitespace: a macro's post-space is left in the stream
        if i % 3 == 2:
            tr.move_past_token(pk, fastforward_post_space=False)
            want_pos = tok.pos_end - len(getattr(tok, 'post_space', '') or '')
            if tr.cur_pos() != want_pos:
                return 'move_past_token(fastforward_post_space=False) left the reader at %r, expected %r (%r)' % (
                    tr.cur_pos(), want_pos, tok)
            if s[want_pos:tok.pos_end].strip() != '':
                return 'post_space %r of %r does not sit at the end of the token span' % (getattr(tok, 'post_space', None), tok)
        tr.move_past_token(pk)
        if tr.cur_pos() != tok.pos_end:
            return 'move_past_token() left the reader at %r, token ends at %r (%r)' % (tr.cur_pos(), tok.pos_end, tok)
    if reached_eos:
        # only whitespace (or nothing) is left: the None-returning peek does not move either, and the end-of-stream
        # report that follows still carries all of the trailing whitespace
        p_end = tr.cur_pos()
        r = tr.peek_token_or_none(ps)
        if r is not None:
            return 'peek_token_or_none() after the last token of the first pass returns %r' % (r,)
        if tr.cur_pos() != p_end:
            return 'peek_token_or_none() at end of stream moved the reader %r -> %r' % (p_end, tr.cur_pos())
        try:
            tr.next_token(ps)
            return 'next_token() after the last token does not raise LatexWalkerEndOfStream'
        except LatexWalkerEndOfStream as e:
            rec.monitor('end_of_stream_after_none_peek')
            if getattr(e, 'final_space', None) != s[p_end:]:
                return 'end of stream after peek_token_or_none() reports final_space %r, the input ends with %r' % (
                    getattr(e, 'final_space', None), s[p_end:])
    # the list reader replays the tokens
    if toks:
        lr = LatexTokenListTokenReader(list(toks))
        for i, tok in enumerate(toks):
            if lr.cur_pos() != tok.pos:
                return 'token-list reader: cur_pos() %r before token %d at %r' % (lr.cur_pos(), i, tok.pos)
            if lr.peek_token(ps) is not tok or lr.peek_token(ps) is not tok:
                return 'token-list reader: peek_token() does not return token %d / moves' % i
            if lr.peek_token_or_none(ps) is not tok:
                return 'token-list reader: peek_token_or_none() does not return token %d' % i
            if lr.next_token(ps) is not tok:
                return 'token-list reader: next_token() does not return token %d' % i
            if i % 3 == 0:
                lr.move_to_token(tok)
                if lr.next_token(ps) is not tok:
                    return 'token-list reader: re-read after move_to_token() does not return token %d' % i
            if i % 5 == 0:
                lr.move_to_token(toks[0])
                lr.move_past_token(tok)
        rec.monitor('token_list_reader_replays')
        if lr.peek_token_or_none(ps) is not None:
            return 'token-list reader: a token after the last one: %r' % (lr.peek_token_or_none(ps),)
        try:
            lr.next_token(ps)
            return 'token-list reader: next_token() past the end does not raise LatexWalkerEndOfStream'
        except LatexWalkerEndOfStream:
            pass
        if lr.final_pos() != toks[-1].pos_end:
            return 'token-list reader: final_pos() %r, last token ends at %r' % (lr.final_pos(), toks[-1].pos_end)
        # a list that holds equal tokens more than once (the same text tokenized twice and concatenated): reading with the
        # generic protocol peek + move_past_token visits each list item once, in order, and ends
        if len(toks) <= 12:
            import copy
            doubled = list(toks) + [copy.copy(t) for t in toks]
            lr2 = LatexTokenListTokenReader(doubled)
            for i, want in enumerate(doubled):
                try:
                    got = lr2.peek_token(ps)
                except LatexWalkerEndOfStream:
                    return 'token-list reader over a list with repeated (equal) tokens: end of stream after %d of %d reads' % (
                        i, len(doubled))
                if got is not want:
                    return 'token-list reader over a list with repeated (equal) tokens: read %d returns list item %s, ' \
                           'expected item %d (no progress / wrong successor)' % (
                               i, [j for j, t in enumerate(doubled) if t is got], i)
                lr2.move_past_token(got)
            if lr2.peek_token_or_none(ps) is not None:
                return 'token-list reader over a list with repeated (equal) tokens: tokens left after %d reads' % len(doubled)
            if len(toks) >= 2:
                lr2.move_to_token(doubled[len(toks) + 1])
                if lr2.next_token(ps) is not doubled[len(toks) + 1]:
                    return 'token-list reader: move_to_token() on the second copy of a token does not go there'
            rec.monitor('token_list_reader_repeated_tokens')
    return None


def check_case(case, rec):
    s, ci, tol = case['s'], case['cfg'], case['tol']
    with_ctx, kw = CONFIGS[ci]
    rec.hist('config', ci)
    rec.hist('mode', 'tolerant' if tol else 'strict')
    try:
        err = read_all(s, with_ctx, kw, tol, rec)
    except Exception as e:
        import traceback
        err = 'unexpected %s: %s [%s]' % (type(e).__name__, e, traceback.format_exc().splitlines()[-3].strip())
    for cname, msg in contracts.drain():
        rec.violation(case, 'contract %s: %s | input %r config %r tolerant=%r' % (cname, msg, s, (with_ctx, kw), tol),
                      mech='contract:' + cname)
    if err:
        rec.violation(case, '%s | input %r config with_ctx=%r %r tolerant=%r' % (err, s, with_ctx, kw, tol),
                      mech=err.split(':')[0][:40])


def shrink(v):
    case = dict(v['case'])
    from ..rec import Recorder

    def fails(x):
        r = Recorder()
        check_case(dict(case, s=x), r)
        return r.n_violations > 0
    case['s'] = ddmin_string(case['s'], fails)
    r = Recorder()
    check_case(case, r)
    if r.violations:
        return r.violations[0]
    return v


def run_shard(desc, rec):
    rng = rng_for(desc)
    k, n = desc['k'], desc['n']
    stride = desc['cfg_stride']
    i = 0
    gens = [soup.all_strings(ALPHA22, desc['L22']), soup.all_strings(soup.ALPHABET, desc['L12'], desc['L22'] + 1)]
    for g in gens:
        for s in soup.slice_of(g, k, n):
            i += 1
            # every string meets every configuration over `stride` consecutive strings, both modes
            for ci in range((i + k) % stride, len(CONFIGS), stride):
                for tol in (False, True):
                    rec.case()
                    check_case({'s': s, 'cfg': ci, 'tol': tol}, rec)
    for j in range(desc['nrand']):
        s = ''.join(rng.choice(LONG_ATOMS) for _ in range(rng.randint(3, 14)))
        for ci in range(len(CONFIGS)):
            for tol in (False, True):
                rec.case()
                case = {'s': s, 'cfg': ci, 'tol': tol}
                if (j * 7 + ci) % 1999 == 0:
                    rec.sample({'s': s, 'config': repr(CONFIGS[ci]), 'tolerant': tol})
                check_case(case, rec)
    for name, c in contracts.COUNTS.items():
        rec.monitor(name, c)
    contracts.COUNTS.clear()


LEVEL_TEXT = ('Exploration with direct assertions and online contracts on the real LatexTokenReader: all strings up '
              'to a length bound and random longer strings are tokenised one token at a time under ~46 parsing-state '
              'configurations in strict and tolerant reading; after every read the monitor checks advance, '
              'peek/next agreement, lossless prefix reconstruction, rewind-and-reread equality and the read-count '
              'bound. The tokenizer is a deterministic function of (string, state, position), so bounded-exhaustive '
              'strings x configurations is the strongest evidence this family can give.')
LEVEL_NOTE = ('Trusted: the assertions in vpl/checks/c11.py and icontract; a strict-mode token parse error ends the '
              'reading of that string (the property speaks of successful reads); in tolerant mode an escaping token '
              'parse error is reported as a violation because reading cannot then reproduce the input.')
TECHNIQUE = 'runtime monitoring: icontract contracts + per-read assertions on the real token reader over bounded-exhaustive strings x parsing-state configurations'
