"""C08 - encoding to LaTeX and converting back to text returns the original string.

Refuting event: for a string s over the frozen invertible alphabet,
latex_to_text(unicode_to_latex(s), strict parsing) != NFC(s) under some brace-protection scheme and
whitespace policy (a replacement fused with, swallowed or separated a neighbour).

Oracle: identity.  The alphabet is frozen in data/c08_alphabet.json (generated once on the repaired
tree by tools/gen_c08_alphabet.py; 1220 built-in characters + printable ASCII minus '"' and '^'; the
279 excluded characters are listed there with the reason), which makes the single-character part a
regression oracle and the string part decide neighbour effects.
"""
import os, re, json, unicodedata
from ..shard import rng_for
from ..util import ddmin_string
from ..rec import Recorder
from pylatexenc.latexencode import UnicodeToLatexEncoder
from pylatexenc.latex2text import LatexNodes2Text

PROPERTY = 'C08'
LEVEL = 'exploration'
RULE = ('every character of the frozen invertible alphabet alone and in 5 neighbour contexts; every ordered pair of alphabet '
        'classes (control-word ending, control symbol, accent+letter, \\ensuremath{..}, brace escape, other macro form, ASCII '
        'letter / digit / punctuation / space / newline) with >= 8 (quick) / 40 (thorough) sampled pairs per cell, also with a '
        'third character; every alphabet character with a canonical decomposition given decomposed (non-NFC input); every ordered pair of admissible ASCII characters, and sampled punctuation triples; random strings of length <= 8; each under the 4 brace-protection schemes x {default, strict} '
        'latex2text whitespace policy. Non-trivial = string with >= 2 characters of which >= 1 has a built-in encoding; '
        'distinct = distinct string.')
EXHAUSTIVE = {'quick': False, 'thorough': False}
ASSUMPTIONS = ['strings never contain the ASCII ligature pairs (--, ``, \'\', !`, ?`: the specials the tables of pylatexenc define) or a '
               'paragraph break written with more than two newlines (all such breaks are rendered alike)',
               'the alphabet file is frozen; characters are never re-qualified at run time']
SCHEMES = ['braces', 'braces-all', 'braces-almost-all', 'braces-after-macro']
POLICIES = {'default': {}, 'strict': {'strict_latex_spaces': True}}
ROOT = os.path.dirname(os.path.dirname(os.path.dirname(os.path.abspath(__file__))))
_DATA = {}
_ENC = {}
_L2T = {}


def data():
    if not _DATA:
        d = json.load(open(os.path.join(ROOT, 'data', 'c08_alphabet.json')))
        _DATA.update(d)
        _DATA['chars'] = [chr(c) for c in d['invertible']] + [chr(c) for c in d['ascii']]
        by = {}
        for c in _DATA['chars']:
            by.setdefault(d['classes'][str(ord(c))], []).append(c)
        _DATA['by_class'] = by
    return _DATA


def plan(tier, seed):
    if tier == 'quick':
        return [{'kind': 'single', 'k': k, 'n': 5, 'name': 'single%d' % k} for k in range(5)] + \
               [{'kind': 'pairs', 'per_cell': 8, 'k': k, 'n': 6, 'name': 'pairs%d' % k} for k in range(6)] + \
               [{'kind': 'random', 'count': 1500, 'name': 'rand%d' % k} for k in range(5)] + \
               [{'kind': 'asciipairs', 'k': k, 'n': 4, 'triples': 2000, 'name': 'ascii%d' % k} for k in range(4)] + \
               [{'kind': 'decomposed', 'extra': 1500, 'name': 'nfd'}]
    return [{'kind': 'single', 'k': k, 'n': 8, 'name': 'single%d' % k} for k in range(8)] + \
           [{'kind': 'pairs', 'per_cell': 40, 'k': k, 'n': 12, 'name': 'pairs%d' % k} for k in range(12)] + \
           [{'kind': 'random', 'count': 25000, 'name': 'rand%d' % k} for k in range(12)] + \
           [{'kind': 'asciipairs', 'k': k, 'n': 8, 'triples': 40000, 'name': 'ascii%d' % k} for k in range(8)] + \
           [{'kind': 'decomposed', 'extra': 40000, 'name': 'nfd%d' % k} for k in range(2)]


def floors(tier):
    return {'evaluations': 10000, 'distinct_nontrivial': 8000, 'round_trips': 80000,
            'histkeys:class_pair': 100, 'histkeys:scheme_policy': 8, 'alphabet_characters_alone': 1300,
            'ascii_pairs': 8000, 'non_nfc_inputs': 1500, 'whitespace_layout_strings': 800}


def setup(rec):
    pass


def enc(scheme):
    if scheme not in _ENC:
        _ENC[scheme] = UnicodeToLatexEncoder(replacement_latex_protection=scheme, unknown_char_warning=False)
    return _ENC[scheme]


def l2t(pol):
    if pol not in _L2T:
        _L2T[pol] = LatexNodes2Text(**POLICIES[pol])
    return _L2T[pol]


_WS_RUN = re.compile(r'[ \n\t]+')


def admissible(s):
    d = data()
    if any(f in s for f in d['forbidden_sequences']):
        return False
    # a paragraph break is written with exactly two adjacent newlines: longer breaks (three newlines, newline - blanks -
    # newline) are all rendered as one break, which is layout, not content
    for m in _WS_RUN.finditer(s):
        r = m.group()
        if r.count('\n') > 2 or (r.count('\n') == 2 and '\n\n' not in r):
            return False
    if s != s.strip(' \n'):
        return False
    return unicodedata.normalize('NFC', s) == s


def check_case(case, rec):
    s = case['s']
    want = unicodedata.normalize('NFC', s)
    for sc in case.get('schemes', SCHEMES):
        for pol in case.get('policies', list(POLICIES)):
            rec.monitor('round_trips')
            rec.hist('scheme_policy', sc + '/' + pol)
            try:
                out = enc(sc).unicode_to_latex(s)
            except Exception as e:
                rec.violation(case, 'encoder raised %s on %r' % (type(e).__name__, s), mech='encoder-raises')
                return
            try:
                back = l2t(pol).latex_to_text(out, tolerant_parsing=False)
            except Exception as e:
                rec.violation(case, 'latex_to_text raised %s: %s on the encoding %r of %r (scheme %s)'
                              % (type(e).__name__, str(e)[:100], out, s, sc), mech='l2t-raises')
                return
            if back != want:
                rec.violation(case, 'round trip of %r gives %r (encoding %r, scheme %s, %s whitespace policy)'
                              % (s, back, out, sc, pol), mech='roundtrip')
                return


def shrink(v):
    case = dict(v['case'])

    def fails(x):
        if not admissible(x):
            return False
        r = Recorder()
        check_case(dict(case, s=x), r)
        return r.n_violations > 0
    case['s'] = ddmin_string(case['s'], fails, max_tests=200)
    r = Recorder()
    check_case(case, r)
    return r.violations[0] if r.violations else v


def run_shard(desc, rec):
    rng = rng_for(desc)
    d = data()
    chars = d['chars']
    klass = lambda c: d['classes'][str(ord(c))]
    kind = desc['kind']
    if kind == 'single':
        for idx, c in enumerate(chars):
            if idx % desc['n'] != desc['k']:
                continue
            rec.monitor('alphabet_characters_alone')
            for s in (c, 'a' + c + 'b', c + c, c + ' ' + c, '(' + c + ')', 'x' + c, c + 'x', c + '1'):
                if not admissible(s):
                    continue
                rec.case()
                if len(s) > 1:
                    rec.nontrivial(s)
                check_case({'s': s}, rec)
    elif kind == 'pairs':
        classes = sorted(d['by_class'])
        cells = [(a, b) for a in classes for b in classes]
        for ci, (a, b) in enumerate(cells):
            if ci % desc['n'] != desc['k']:
                continue
            n = 0
            tries = 0
            while n < desc['per_cell'] and tries < desc['per_cell'] * 20:
                tries += 1
                x, y = rng.choice(d['by_class'][a]), rng.choice(d['by_class'][b])
                s = x + y
                if rng.random() < 0.4:
                    s = s + rng.choice(chars)
                if rng.random() < 0.2:
                    s = rng.choice(chars) + s
                if not admissible(s):
                    continue
                n += 1
                rec.case()
                rec.hist('class_pair', a + '>' + b)
                rec.nontrivial(s)
                if (ci + n) % 257 == 0:
                    rec.sample({'s': s, 'encoded': enc('braces').unicode_to_latex(s)})
                check_case({'s': s}, rec)
    elif kind == 'decomposed':
        # inputs that are NOT in NFC: the statement promises the NFC form of the original back.  Every alphabet
        # character with a canonical decomposition is given decomposed (NFD), alone, between ASCII neighbours, doubled,
        # and in random mixtures with composed alphabet characters.
        alpha = set(chars)
        dec = [(c, unicodedata.normalize('NFD', c)) for c in chars
               if unicodedata.normalize('NFD', c) != c and unicodedata.normalize('NFC', unicodedata.normalize('NFD', c)) in alpha]
        asc = [chr(c) for c in d['ascii']]
        def ok(x):
            w = unicodedata.normalize('NFC', x)
            return w == w.strip(' \n') and not any(f in w for f in d['forbidden_sequences']) and all(ch in alpha for ch in w)
        for c, nfd in dec:
            for s in (nfd, 'a' + nfd + 'b', nfd + nfd, 'x ' + nfd, nfd + '.'):
                if not ok(s):
                    continue
                rec.case()
                rec.monitor('non_nfc_inputs')
                rec.nontrivial(s)
                check_case({'s': s}, rec)
        for i in range(desc['extra']):
            parts = []
            for _ in range(rng.randint(1, 4)):
                r = rng.random()
                parts.append(rng.choice(dec)[1] if r < 0.5 else (rng.choice(asc) if r < 0.85 else rng.choice(chars)))
            s = ''.join(parts)
            if unicodedata.normalize('NFC', s) == s or not ok(s):
                continue
            rec.case()
            rec.monitor('non_nfc_inputs')
            rec.nontrivial(s)
            check_case({'s': s}, rec)
    elif kind == 'asciipairs':
        # every ordered pair of admissible ASCII characters (a pair that the decoder fuses into one character --
        # a ligature the encoder does not break up -- exists only in strings), then sampled triples
        asc = [chr(c) for c in d['ascii']]
        idx = 0
        for x in asc:
            for y in asc:
                idx += 1
                if idx % desc['n'] != desc['k']:
                    continue
                for s in (x + y, 'a' + x + y + 'b'):
                    if not admissible(s):
                        continue
                    rec.case()
                    if len(s) == 2:
                        rec.monitor('ascii_pairs')
                    rec.nontrivial(s)
                    check_case({'s': s}, rec)
        # whitespace layouts: blanks, newlines and paragraph breaks between ASCII and replaced characters
        inv = [chr(c) for c in d['invertible']]
        ws = [' ', '  ', '\n', ' \n', '\n ', '\n\n', '\n\n ', ' \n\n', '\n\n  ', '   ', ' \n ']
        for i in range(desc['triples'] // 4):
            parts = [rng.choice(asc + inv[:40] + [rng.choice(inv)])]
            for _ in range(rng.randint(1, 3)):
                parts.append(rng.choice(ws))
                parts.append(rng.choice(asc + [rng.choice(inv)]))
            s = ''.join(parts)
            if not admissible(s):
                continue
            rec.case()
            rec.monitor('whitespace_layout_strings')
            rec.nontrivial(s)
            check_case({'s': s}, rec)
        punct = [c for c in asc if not c.isalnum()]
        for i in range(desc['triples']):
            s = ''.join(rng.choice(punct) for _ in range(rng.randint(3, 4)))
            if not admissible(s):
                continue
            rec.case()
            rec.nontrivial(s)
            check_case({'s': s}, rec)
    else:
        asc = [chr(c) for c in d['ascii']]
        inv = [chr(c) for c in d['invertible']]
        for i in range(desc['count']):
            k = rng.randint(1, 8)
            s = ''.join(rng.choice(inv) if rng.random() < 0.45 else rng.choice(asc + [' ', ' ', 'a', 'e', 'z'])
                        for _ in range(k))
            if not admissible(s):
                continue
            rec.case()
            if len(s) > 1:
                rec.nontrivial(s)
            check_case({'s': s}, rec)


LEVEL_TEXT = ('Exploration with an identity oracle over a frozen alphabet: the real encoder and the real latex2text are composed '
              'on every invertible character alone and in neighbour contexts, on sampled pairs covering every ordered pair of '
              'encoding classes (where fusing, swallowing and separating happen) and on random strings, under all four '
              'brace-protection schemes and both whitespace policies; the result must be the NFC input exactly.')
LEVEL_NOTE = ('Trusted: data/c08_alphabet.json (frozen on the repaired tree; exclusions listed with reasons). The strict parser '
              'is used for the way back (tolerant_parsing=False), so an unparsable encoding is a violation too.')
TECHNIQUE = 'runtime monitoring: round-trip identity oracle (real encoder composed with real latex2text) over a frozen invertible alphabet with class-pair coverage'
