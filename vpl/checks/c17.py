"""C17 - a derived parsing state behaves exactly like a freshly built one.

Refuting events: the token stream or the parse of some string under a state
obtained through a chain of sub_context() calls differs from that under
ParsingState(**derived.get_fields()); sub_context() changes a field of the state
it is called on; the derived state's fields are not the receiver's fields
updated with the keyword arguments.

Oracle: token-level and parse-level differential execution on the real reader /
parser, plus the sub_context contract (icontract) on every call, including the
calls the parser itself makes.
"""
import itertools
from ..shard import rng_for
from ..mon import contracts, canon
from ..util import default_ctx
from ..rec import Recorder
from pylatexenc.latexnodes import (
    LatexTokenReader, ParsingState, LatexWalkerEndOfStream, LatexWalkerParseError,
)
from pylatexenc.latexwalker import LatexWalker
from pylatexenc.latexnodes.parsers import LatexGeneralNodesParser

PROPERTY = 'C17'
LEVEL = 'exploration'
RULE = ('all chains of <= 2 sub_context() calls over a reduced single-field value set (exhaustive) and random chains of '
        '<= 4 calls changing 1-3 fields each (biased to entering math mode and then changing the delimiter lists), '
        'each compared with a freshly constructed state on all strings up to length 3 (quick) / 4 (thorough) over an '
        'alphabet containing every configured delimiter plus random longer strings, at token level (tolerant and '
        'strict reader) and at parse level. Non-trivial = chain whose final fields differ from the defaults in >= 1 '
        'field and produced >= 2 tokens; distinct = distinct (chain, string).')
EXHAUSTIVE = {'quick': False, 'thorough': False}
ASSUMPTIONS = ['field values are compared with ==', 'contracts backend: ' + contracts.BACKEND]

FIELD_CHOICES = {
    'in_math_mode': [True, False],
    'math_mode_delimiter': [None, '$', '$$', '\\(', '\\[', '€', 'align'],
    # None = "back to the default" for the three delimiter lists (documented in set_fields)
    'latex_group_delimiters': [[('{', '}')], [('{', '}'), ('[', ']')], [('<', '>')], [('{', '}'), ('(', ')')], None],
    'latex_inline_math_delimiters': [[('$', '$'), ('\\(', '\\)')], [('$', '€')], [('€', '€')], [('\\(', '\\)')],
                                     [('$', '$')], None],
    'latex_display_math_delimiters': [[('$$', '$$'), ('\\[', '\\]')], [('$$', '€€')], [('\\[', '\\]')], [('€€', '$$')],
                                      # pairs that are also (default / configured) inline delimiters
                                      [('\\(', '\\)')], [('$', '$'), ('\\[', '\\]')], None],
    'enable_double_newline_paragraphs': [True, False],
    'enable_macros': [True, False],
    'enable_environments': [True, False],
    'enable_comments': [True, False],
    'enable_groups': [True, False],
    'enable_math': [True, False],
    'enable_specials': [True, False],
    'macro_escape_char': ['\\', '!'],
    'comment_start': ['%', '#'],
    'forbidden_characters': ['', 'a', '$'],
    'macro_alpha_chars': ['abcdefghijklmnopqrstuvwxyzABCDEFGHIJKLMNOPQRSTUVWXYZ', 'ab@'],
}
ALPHA = ['a', ' ', '\n', '{', '}', '[', ']', '<', '>', '(', ')', '$', '€', '\\', '!', '%', '#', '~']
ATOMS = ALPHA + ['\\(', '\\)', '\\[', '\\]', '$$', '€€', '\\begin{a}', '\\end{a}', '\n\n', '\\a', '!a', '--', 'b',
                 # every construct also spelled with the alternative escape / comment characters
                 '!begin{a}', '!end{a}', '!begin', '!end{', '!(', '!)', '![', '!]', '!!', '#c\n', '%c\n', '!a b', '\\a b',
                 # arguments that are read in text mode / in math mode whatever the surrounding mode (default context)
                 '\\text{', '\\mbox{a %c\n b}', '\\textbf{v $w$ z}', '\\text{p <q> [r] (s)}', '\\ensuremath{x %c\n$y$}',
                 '\\text{a~b--c}', '!text{a #c\n b}']


def single_steps():
    out = []
    for k, vals in sorted(FIELD_CHOICES.items()):
        for v in vals:
            out.append({k: v})
    out.append({'in_math_mode': True, 'math_mode_delimiter': '$'})
    out.append({'in_math_mode': True, 'math_mode_delimiter': '\\['})
    out.append({'in_math_mode': True, 'math_mode_delimiter': '$$'})
    return out


STEPS = single_steps()


def plan(tier, seed):
    if tier == 'quick':
        sh = [{'kind': 'enum', 'k': k, 'n': 8, 'L': 3, 'sthin': 5, 'pthin': 12, 'name': 'enum%d' % k} for k in range(8)]
        sh += [{'kind': 'random', 'count': 300, 'L': 3, 'sthin': 60, 'name': 'rand%d' % k} for k in range(8)]
        return sh
    sh = [{'kind': 'enum', 'k': k, 'n': 16, 'L': 4, 'sthin': 23, 'pthin': 2, 'name': 'enum%d' % k} for k in range(16)]
    sh += [{'kind': 'random', 'count': 2500, 'L': 4, 'sthin': 800, 'name': 'rand%d' % k} for k in range(16)]
    return sh


def floors(tier):
    return {'evaluations': 3000, 'distinct_nontrivial': 20000, 'token_streams_compared': 100000,
            'parses_compared': 30000, 'sub_context_receiver_unchanged': 10000,
            'hist:bias:math-then-delims': 200, 'chains_with_sibling_derivations': 300,
            'hist:bias:leave-and-reenter-math': 100, 'hist:bias:reclassify-math-delimiters': 100}


def setup(rec):
    contracts.install_parsing_state_contracts()


def detuple(kw):
    out = {}
    for k, v in kw.items():
        if isinstance(v, list):
            v = [tuple(x) if isinstance(x, list) else x for x in v]
        out[k] = v
    return out


def toks(s, ps, tolerant):
    tr = LatexTokenReader(s, tolerant_parsing=tolerant)
    out = []
    while True:
        try:
            t = tr.next_token(ps)
        except LatexWalkerEndOfStream as e:
            out.append(('EOS', e.final_space))
            break
        except LatexWalkerParseError as e:
            out.append(('ERR', type(e).__name__, getattr(e, 'pos', None)))
            break
        except Exception as e:
            out.append(('EXC', type(e).__name__))
            break
        arg = t.arg if isinstance(t.arg, str) else ('spec', getattr(t.arg, 'specials_chars', None))
        out.append((t.tok, arg, t.pos, t.pos_end, t.pre_space, getattr(t, 'post_space', None)))
        if len(out) > len(s) + 3:
            out.append('LOOP')
            break
    return out


def parse_with(s, ps):
    try:
        lw = LatexWalker(s, latex_context=ps.latex_context, tolerant_parsing=False)
        nl, _ = lw.parse_content(LatexGeneralNodesParser(), parsing_state=ps)
        return ('ok', [canon.canon(n) for n in nl] if nl is not None else None)
    except LatexWalkerParseError as e:
        return ('err', type(e).__name__, getattr(e, 'pos', None))
    except RecursionError:
        return ('recursion',)
    except Exception as e:
        return ('exc', type(e).__name__, str(e)[:80])


LIST_DEFAULTS = {'latex_group_delimiters': [('{', '}')], 'latex_inline_math_delimiters': [('$', '$'), ('\\(', '\\)')],
                 'latex_display_math_delimiters': [('$$', '$$'), ('\\[', '\\]')]}


def deep_fields(ps):
    """Field values with the list-valued ones copied (a state hands its own list objects on to its children)."""
    import copy
    return {k: (copy.deepcopy(v) if isinstance(v, (list, dict, set)) else v) for k, v in ps.get_fields().items()}


def model_after(model, kw):
    m = dict(model)
    m.update(kw)
    for k, dflt in LIST_DEFAULTS.items():
        if m.get(k) is None:
            m[k] = list(dflt)
    if not m['in_math_mode']:
        m['math_mode_delimiter'] = None
    return m


def build(chain, with_ctx, siblings=None):
    """Returns (derived, fresh, error).  siblings: {step index: [kw, ...]} -- other states derived from the same receiver just
    before that step of the chain (one state usually has many children: every formula, group and argument of a document)."""
    ps = ParsingState(s=None, latex_context=(default_ctx() if with_ctx else None))
    model = deep_fields(ps)
    ancestors = []
    for si, kw in enumerate(chain):
        kw = detuple(kw)
        for skw in (siblings or {}).get(str(si), []):
            skw = detuple(skw)
            try:
                sib = ps.sub_context(**skw)
            except Exception as e:
                return None, None, 'sub_context(%r) raised %s: %s' % (skw, type(e).__name__, e)
            want = model_after(model, skw)
            got = sib.get_fields()
            if got != want:
                return None, None, 'fields of the sibling derived with sub_context(%r) are %r, expected %r' % (
                    skw, {k: got[k] for k in got if got[k] != want.get(k)}, {k: want[k] for k in got if got[k] != want.get(k)})
        before = deep_fields(ps)
        ancestors.append((ps, before))
        try:
            ps2 = ps.sub_context(**kw)
        except Exception as e:
            return None, None, 'sub_context(%r) raised %s: %s' % (kw, type(e).__name__, e)
        after = ps.get_fields()
        if after != before:
            return None, None, 'sub_context(%r) altered its receiver: %r -> %r' % (
                kw, {k: before[k] for k in before if before[k] != after[k]},
                {k: after[k] for k in before if before[k] != after[k]})
        model.update(kw)
        for k, dflt in LIST_DEFAULTS.items():
            if model.get(k) is None:
                model[k] = list(dflt)
        # documented normalisation: a delimiter without math mode is dropped
        if not model['in_math_mode']:
            model['math_mode_delimiter'] = None
        got = ps2.get_fields()
        if got != model:
            return None, None, 'fields after sub_context(%r) are %r, expected %r' % (
                kw, {k: got[k] for k in got if got[k] != model.get(k)},
                {k: model[k] for k in got if got[k] != model.get(k)})
        ps = ps2
    # no later step may have altered an earlier state of the chain either
    for i, (a, snap) in enumerate(ancestors):
        now = a.get_fields()
        if now != snap:
            return None, None, 'state %d of the chain was altered by a later sub_context() step: %r -> %r' % (
                i, {k: snap[k] for k in snap if snap[k] != now[k]}, {k: now[k] for k in snap if snap[k] != now[k]})
    try:
        fresh = ParsingState(**ps.get_fields())
    except Exception as e:
        return None, None, 'ParsingState(**derived.get_fields()) raised %s: %s' % (type(e).__name__, e)
    return ps, fresh, None


def check_case(case, rec):
    chain = case['chain']
    with_ctx = case.get('with_ctx', True)
    derived, fresh, err = build(chain, with_ctx, case.get('siblings'))
    for cname, msg in contracts.drain():
        rec.violation(case, 'contract %s: %s | chain %r' % (cname, msg, chain), mech='contract')
    if err:
        rec.violation(case, '%s | chain %r' % (err, chain), mech=err.split('(')[0][:30])
        return
    nondefault = derived.get_fields() != ParsingState(s=None, latex_context=derived.latex_context).get_fields()
    for s in case['strings']:
        for tol in (True, False):
            a, b = toks(s, derived, tol), toks(s, fresh, tol)
            rec.monitor('token_streams_compared')
            if a != b:
                rec.violation(dict(case, strings=[s]),
                              'token stream under the derived state differs from the fresh state (tolerant=%r) | chain %r | '
                              'string %r | derived %r | fresh %r' % (tol, chain, s, a[:8], b[:8]), mech='token-diff')
                return
        if nondefault and len(a) >= 3:
            rec.nontrivial((chain, s))
        if case.get('parse', True):
            pa, pb = parse_with(s, derived), parse_with(s, fresh)
            rec.monitor('parses_compared')
            if pa != pb:
                rec.violation(dict(case, strings=[s]),
                              'parse under the derived state differs from the fresh state | chain %r | string %r | derived '
                              '%r | fresh %r' % (chain, s, str(pa)[:300], str(pb)[:300]), mech='parse-diff')
                return
    for cname, msg in contracts.drain():
        rec.violation(case, 'contract %s: %s | chain %r' % (cname, msg, chain), mech='contract')


def strings_for(rng, L, thin, k):
    out = []
    i = 0
    for n in range(0, L + 1):
        for t in itertools.product(ALPHA, repeat=n):
            i += 1
            if i % thin == k % thin:
                out.append(''.join(t))
    for _ in range(30):
        out.append(''.join(rng.choice(ATOMS) for _ in range(rng.randint(3, 10))))
    return out


def run_shard(desc, rec):
    rng = rng_for(desc)
    if desc['kind'] == 'enum':
        idx = 0
        chains = [[a] for a in STEPS] + [[a, b] for a in STEPS for b in STEPS]
        for ci, chain in enumerate(chains):
            if ci % desc['n'] != desc['k']:
                continue
            strs = strings_for(rng, 2 if len(chain) == 2 else desc['L'],
                               desc['sthin'] if len(chain) == 1 else desc['pthin'], ci)
            rec.case()
            check_case({'chain': chain, 'strings': strs, 'with_ctx': bool(ci % 2), 'parse': len(chain) == 1 or ci % 5 == 0}, rec)
    else:
        keys = sorted(FIELD_CHOICES)
        for i in range(desc['count']):
            chain = []
            biased = rng.random() < 0.4
            if rng.random() < 0.2:
                # leave math mode and come back, each time with or without naming the delimiter, with unrelated steps between
                rec.hist('bias', 'leave-and-reenter-math')
                delims = ['$', '$$', '\\(', '\\[', '€', '€€']
                unrelated = ['latex_group_delimiters', 'enable_math', 'enable_comments', 'enable_macros', 'macro_alpha_chars']
                unrelated = [k for k in unrelated if k in FIELD_CHOICES]

                def some_unrelated():
                    for _ in range(rng.randint(0, 2)):
                        k = rng.choice(unrelated)
                        chain.append({k: rng.choice(FIELD_CHOICES[k])})
                for _ in range(rng.randint(1, 2)):
                    kw = {'in_math_mode': True}
                    if rng.random() < 0.6:
                        kw['math_mode_delimiter'] = rng.choice(delims)
                    chain.append(kw)
                    some_unrelated()
                    kw = {'in_math_mode': False}
                    if rng.random() < 0.3:
                        kw['math_mode_delimiter'] = None
                    chain.append(kw)
                    some_unrelated()
                kw = {'in_math_mode': True}
                if rng.random() < 0.4:
                    kw['math_mode_delimiter'] = rng.choice(delims)
                chain.append(kw)
            elif rng.random() < 0.15:
                # one step that moves the boundary between the inline and the display delimiter lists (the same pairs,
                # classified differently), possibly after the lists were set explicitly and with unrelated steps around
                rec.hist('bias', 'reclassify-math-delimiters')
                I = [('$', '$'), ('\\(', '\\)')]
                Dl = [('$$', '$$'), ('\\[', '\\]')]
                if rng.random() < 0.5:
                    I, Dl = rng.choice([([('$', '$')], [('$$', '$$')]), ([('$', '$'), ('€', '€')], [('\\[', '\\]'), ('€€', '€€')]),
                                        ([('\\(', '\\)')], [('$', '$'), ('\\[', '\\]')])])
                    chain.append({'latex_inline_math_delimiters': list(I), 'latex_display_math_delimiters': list(Dl)})
                if rng.random() < 0.4:
                    chain.append({rng.choice(['enable_comments', 'enable_groups']): rng.random() < 0.5})
                for _ in range(rng.randint(1, 2)):
                    allp = I + Dl
                    j = rng.choice([x for x in range(len(allp) + 1) if x != len(I)])
                    I, Dl = allp[:j], allp[j:]
                    chain.append({'latex_inline_math_delimiters': list(I), 'latex_display_math_delimiters': list(Dl)})
                if rng.random() < 0.4:
                    chain.append({'in_math_mode': True})
            elif biased:
                rec.hist('bias', 'math-then-delims')
                chain.append({'in_math_mode': True, 'math_mode_delimiter': rng.choice(['$', '$$', '\\(', '\\[', '€', '€€'])})
                for _ in range(rng.randint(1, 3)):
                    kw = {}
                    for k in rng.sample(['latex_inline_math_delimiters', 'latex_display_math_delimiters',
                                         'latex_group_delimiters', 'enable_math', 'math_mode_delimiter'], rng.randint(1, 2)):
                        kw[k] = rng.choice(FIELD_CHOICES[k])
                    chain.append(kw)
            else:
                rec.hist('bias', 'uniform')
                for _ in range(rng.randint(1, 4)):
                    kw = {}
                    for k in rng.sample(keys, rng.randint(1, 3)):
                        kw[k] = rng.choice(FIELD_CHOICES[k])
                    chain.append(kw)
            strs = strings_for(rng, desc['L'], desc['sthin'], i)
            rec.case()
            case = {'chain': chain, 'strings': strs, 'with_ctx': rng.random() < 0.5}
            if rng.random() < 0.4:
                # siblings: the receiver of one step is asked for other, similar children first
                si = rng.randrange(len(chain))
                st = chain[si]
                cands = [dict(st, math_mode_delimiter=None), {k: v for k, v in st.items() if k != 'math_mode_delimiter'},
                         dict(st, math_mode_delimiter='$'), dict(st, in_math_mode=True), {'in_math_mode': True},
                         {'in_math_mode': True, 'math_mode_delimiter': None}, dict(rng.choice(chain))]
                cands = [c for c in cands if c]
                case['siblings'] = {str(si): [rng.choice(cands) for _ in range(rng.randint(1, 2))]}
                rec.monitor('chains_with_sibling_derivations')
            if i % 100 == 0:
                rec.sample({'chain': chain, 'strings': strs[:5]})
            check_case(case, rec)
    for name, c in contracts.COUNTS.items():
        rec.monitor(name, c)
    contracts.COUNTS.clear()


def shrink(v):
    case = dict(v['case'])
    chain = list(case['chain'])
    changed = True
    while changed and len(chain) > 1:
        changed = False
        for i in range(len(chain)):
            c2 = chain[:i] + chain[i + 1:]
            r = Recorder()
            check_case(dict(case, chain=c2), r)
            if r.n_violations:
                chain = c2
                changed = True
                break
    r = Recorder()
    check_case(dict(case, chain=chain), r)
    return r.violations[0] if r.violations else v


LEVEL_TEXT = ('Exploration by differential execution with an online contract: all chains of one or two sub_context() calls '
              'over a reduced value set and thousands of random longer chains are built on the real ParsingState, and the '
              'derived state is compared with ParsingState(**derived.get_fields()) on token streams (strict and tolerant) '
              'and strict parses of all short strings over an alphabet containing every configured delimiter; the '
              'receiver-unchanged contract (icontract) observes every sub_context() call, including those the parser '
              'makes internally.')
LEVEL_NOTE = ('Trusted: canonical dumps and token tuples; the field model (receiver fields updated by the keyword arguments, '
              'math_mode_delimiter dropped outside math mode as documented by the constructor warning).')
TECHNIQUE = 'runtime monitoring: derived-vs-fresh differential execution (token and parse level) + icontract receiver-unchanged contract on sub_context'
