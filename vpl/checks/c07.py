"""C07 - latex2text is total: a string for every input and option set.

Refuting events: LatexNodes2Text(**options).latex_to_text(s) raises, returns a
non-string, or exceeds the logical step budget (watchdog twice).

Oracle: type check + step budget.  Workload: every macro and environment name of
both default databases in 25 macro / 19 environment templates (bare, empty and
many arguments, optional, star, as single-token argument of another macro, in
math, before closers, before comment/paragraph, empty body, alignment body), all
short strings, soups, generated documents, each crossed with option tuples.
"""
import itertools
from ..shard import rng_for
from .. import work
from ..gen import soup
from ..mon import budget
from ..util import ddmin_string, converter, drop_converters
from ..rec import Recorder
from pylatexenc.latex2text import LatexNodes2Text

PROPERTY = 'C07'
LEVEL = 'exploration'
RULE = ('every macro (1088) and environment (57) name of the default walker and text databases instantiated in 17 / 12 '
        'templates; every string up to length L over the 12-symbol alphabet (L=4 quick / 5 thorough); random soups '
        'over all names; generated documents; each input converted under option tuples drawn from math_mode(4) x '
        'strict_latex_spaces(6) x keep_comments(2) x keep_braced_groups(2) x fill_text(3) (quick: rotating sample '
        'covering every value and, over the run, every pair; thorough: more tuples per input, full product for '
        'names with non-trivial specifications). Non-trivial = distinct (input, options) whose conversion visited '
        'a macro, environment, math or specials; counted as distinct (input, option tuple).')
EXHAUSTIVE = {'quick': False, 'thorough': False}
ASSUMPTIONS = ['step budget A*(len+1)+B token-reader calls (A=400, B=4000); watchdog 20 s per case is inconclusive only',
               'scaling families: a conversion that needs more than 2 s + 0.02 s/char of CPU time (time.process_time, own '
               'process only) counts as unbounded; the unchanged library needs about 10 microseconds per character',
               'default tolerant parsing (latex_to_text without parse flags)']

MATH_MODES = ['text', 'with-delimiters', 'verbatim', 'remove']
SPACES = [False, 'based-on-source', 'macros', 'except-in-equations', True, 'default',
          # the documented dictionary form, also with a (partial) dictionary for the policies inside formulas
          {'between-macro-and-chars': True, 'after-comment': True},
          {'between-latex-constructs': True, 'in-equations': {'between-macro-and-chars': True}},
          {'between-macro-and-chars': True, 'between-latex-constructs': True, 'after-comment': True,
           'in-equations': {'between-macro-and-chars': False, 'between-latex-constructs': False, 'after-comment': False}},
          {'in-equations': False}, 'on', 'off']
KEEPC = [False, True]
KEEPB = [False, True]
FILL = [None, True, 20]
ALL_OPTS = list(itertools.product(range(len(MATH_MODES)), range(len(SPACES)), range(2), range(2), range(len(FILL))))

MACRO_TEMPLATES = [
    '\\%s', '\\%s{}', '\\%s{a}{b}{c}{d}{e}', '\\%s[o]{a}', '\\%s*{a}', '\\%s[]', '\\%s a b c',
    '\\textbf\\%s', '\\hat\\%s', '\\frac\\%s\\%s', '$\\%s{x}{y}$', '$x^\\%s$', '{\\%s}', '\\%s}', '\\%s%%c\n{a}',
    '\\%s\n\n{a}', '\\%s{\\%s{a}}{\\%s}',
    '\\%s{$x$}{\\[y\\]}', '\\%s[{]}]{a\\par b}', '\\%s{a & b \\\\ c}', '\\begin{itemize}\\item \\%s\\end{itemize}',
    '\\%s{\\begin{center}x\\end{center}}', '\\%s~--``x\'\'', '\\%s{}{}{}{}{}{}', '\\%s*[o][p]{a}{b}',
    # argument text from every character class (upper/lower case, digits, punctuation, non-ASCII), in text and in math
    '\\%s{Ab0 9.,;:!?()+-=/*<>|@}', '$\\%s{X1z}{0}$', '\\%s{\u00e9 \u00df \\alpha 7}{\u03a9}', '\\%s{1}{2}{3}',
    # the input ends right after the name, a star or an opening delimiter
    '\\%s*', 'a \\%s  *', '{\\%s*', '\\%s[', '\\%s{', '\\%s*[', '\\%s|', '\\%s ',
]
ENV_TEMPLATES = [
    '\\begin{%s}\\end{%s}', '\\begin{%s}a\\end{%s}', '\\begin{%s}{c}a & b \\\\ c & d\\end{%s}',
    '\\begin{%s}[o]{a}{b}x\\end{%s}', '\\begin{%s}', '\\end{%s}', '\\begin{%s}{\\end{%s}', '$\\begin{%s}a\\end{%s}$',
    '\\begin{%s}\\item a\\item[b] c\\end{%s}', '\\begin{%s}\n\n\\end{%s}', '\\begin{%s}%%c\n\\end{%s}',
    '\\begin{%s}\\begin{%s}a&b\\end{%s}\\end{%s}',
    '\\begin{%s}[o]\\end{%s}', '\\begin{%s}{}\\end{%s}', '\\begin{%s}{cc} & \\\\ & \\end{%s}', '\\begin{%s}*x\\end{%s}',
    '\\begin{%s}$a$ \\[b\\] %%c\n\\end{%s}', '\\begin{%s}\\\\\\\\&&\\end{%s}', '\\textbf{\\begin{%s}a\\end{%s}}',
]


def opts_from(t):
    return dict(math_mode=MATH_MODES[t[0]], strict_latex_spaces=SPACES[t[1]], keep_comments=KEEPC[t[2]],
                keep_braced_groups=KEEPB[t[3]], fill_text=FILL[t[4]])


def plan(tier, seed):
    if tier == 'quick':
        sh = [{'kind': 'names', 'k': k, 'n': 6, 'per': 2, 'name': 'names%d' % k} for k in range(6)]
        sh += [{'kind': 'enum', 'L': 4, 'k': k, 'n': 4, 'per': 2, 'name': 'enum%d' % k} for k in range(4)]
        sh += [{'kind': 'soup', 'count': 3000, 'per': 3, 'name': 'soup%d' % k} for k in range(3)]
        sh += [{'kind': 'docs', 'count': 700, 'per': 4, 'depth': 4, 'name': 'docs%d' % k} for k in range(3)]
        sh += [{'kind': 'scaling', 'k': k, 'n': 2, 'sizes': [4, 8, 12, 16, 20, 22, 24, 26, 28, 32, 64], 'name': 'scale%d' % k}
               for k in range(2)]
        sh += [{'kind': 'pairs', 'k': k, 'n': 2, 'per': 2, 'name': 'pairs%d' % k} for k in range(2)]
        return sh
    sh = [{'kind': 'names', 'k': k, 'n': 32, 'per': 40, 'name': 'names%d' % k} for k in range(32)]
    sh += [{'kind': 'enum', 'L': 5, 'k': k, 'n': 8, 'per': 2, 'name': 'enum%d' % k} for k in range(8)]
    sh += [{'kind': 'soup', 'count': 20000, 'per': 6, 'name': 'soup%d' % k} for k in range(8)]
    sh += [{'kind': 'docs', 'count': 4000, 'per': 8, 'depth': 4 + k % 3, 'name': 'docs%d' % k} for k in range(8)]
    sh += [{'kind': 'scaling', 'k': k, 'n': 4, 'sizes': [4, 8, 12, 16, 20, 22, 24, 26, 28, 32, 48, 64, 128, 256, 512],
            'name': 'scale%d' % k} for k in range(4)]
    sh += [{'kind': 'pairs', 'k': k, 'n': 4, 'per': 12, 'name': 'pairs%d' % k} for k in range(4)]
    return sh


def floors(tier):
    return {'evaluations': 60000, 'distinct_nontrivial': 20000, 'conversions': 60000,
            'histkeys:macro_name': 1000, 'histkeys:env_name': 50, 'histkeys:option_pair': 110,
            'histkeys:template': 56, 'scaling_conversions_timed': 300, 'histkeys:scaling_family': 30,
            'function_rule_macro_pairs': 10000}


def setup(rec):
    budget.install()


def convert(s, opts, rec):
    budget.begin(budget.limit_for(s, A=600, B=6000))
    try:
        with budget.watchdog(20):
            t = converter(opts, s, rec).latex_to_text(s)
        return 'ok', t
    except budget.StepBudgetExceeded as e:
        drop_converters()
        return 'budget', str(e)
    except budget.WatchdogExpired as e:
        drop_converters()
        return 'watchdog', str(e)
    except RecursionError as e:
        drop_converters()
        return 'recursion', e
    except Exception as e:
        drop_converters()
        return 'exc', e
    finally:
        n = budget.end()
        rec.note_max('max_steps_per_char', round(n / float(len(s) + 1), 2))


# families of inputs that grow by repeating a unit: (prefix, unit, suffix)
SCALING = [('\\begin{', 'a', ''), ('\\begin{', 'ab ', ','), ('\\end{', 'a.b-c', '\n'), ('\\begin{', 'x y', '$'), ('\\begin {', 'a1*', ' \\'),
           ('', '{', ''), ('', '}', ''), ('', '$', ''), ('', '[', ''), ('', '\\textbf', ''), ('', '\\frac', ''), ('', '%', '\n'),
           ('a', ' ', 'b'), ('a', '\n', 'b'), ('', '\\', ''), ('', '`', ''), ('', '-', ''), ('', "'", ''), ('', '~', ''),
           ('', '\\begin{itemize}', ''), ('', '\\item[', ''), ('', '\\sqrt[', ''), ('', '\\verb|', ''), ('$', 'a_', '$'),
           ('', '\\(', ''), ('', '\\begin{equation}', ''), ('', '\\begin{', ''), ('', '\\end{x}', ''), ('\\input{', 'a/', '}'),
           ('', '\\\\[', ''), ('\\begin{verbatim}', 'a ', ''), ('', '\\cite[', ''), ('', '\\"', ''), ('', '\\item ', ''),
           ('\\begin{tabular}{', 'c', '}'), ('', '&', ''), ('', '\\begin{a b}\\end{a b} ', '')]


def cpu_limit(s):
    """CPU seconds a conversion may take before it counts as unbounded: three to four orders of magnitude above what the
    unchanged library needs (about 10 microseconds per character), measured with time.process_time() so that waiting
    for a loaded machine does not count."""
    return 2.0 + 0.02 * len(s)


def check_scaling(fam, sizes, rec):
    import time
    pre, unit, suf = fam
    rec.hist('scaling_family', repr(fam))
    for N in sizes:
        s = pre + unit * N + suf
        for oi, optt in enumerate(((0, 0, 0, 0, 0), (1, 2, 1, 1, 1))):
            opts = opts_from(list(optt))
            rec.case()
            rec.monitor('scaling_conversions_timed')
            t0 = time.process_time()
            what, val = convert(s, opts, rec)
            cpu = time.process_time() - t0
            rec.note_max('max_cpu_seconds_per_conversion', round(cpu, 3))
            case = {'s': s, 'opts': list(optt), 'scaling': [pre, unit, suf, N]}
            if what == 'watchdog' or cpu > cpu_limit(s):
                rec.violation(case, 'latex_to_text needs %.1f s of CPU time (limit %.1f s) for the %d-character input %r: the '
                              'same unit repeated %d times took %s' % (cpu, cpu_limit(s), len(s), s[:80], N, what),
                              mech='unbounded-time')
                return
            if what == 'exc':
                rec.violation(case, 'latex_to_text raised %s: %s | input %r' % (type(val).__name__, str(val)[:150], s[:120]),
                              mech='raises:' + type(val).__name__)
                return
            if what == 'budget':
                rec.violation(case, 'latex_to_text makes no progress: %s | input %r' % (val, s[:120]), mech='no-progress')
                return


def check_case(case, rec):
    if case.get('scaling'):
        pre, unit, suf, N = case['scaling']
        check_scaling((pre, unit, suf), [N], rec)
        return
    s = case['s']
    opts = opts_from(case['opts'])
    rec.monitor('conversions')
    what, val = convert(s, opts, rec)
    if what == 'exc':
        import traceback
        tb = traceback.extract_tb(val.__traceback__)
        where = '%s:%d' % (tb[-1].filename.split('/')[-1], tb[-1].lineno) if tb else '?'
        rec.violation(case, 'latex_to_text raised %s: %s [%s] | input %r options %r'
                      % (type(val).__name__, str(val)[:200], where, s, opts), mech='raises:' + type(val).__name__)
    elif what == 'budget':
        rec.violation(case, 'latex_to_text makes no progress: %s | input %r options %r' % (val, s, opts),
                      mech='no-progress')
    elif what == 'watchdog':
        rec.inconclusive_case('watchdog on %r %r' % (s, opts))
    elif what == 'recursion':
        rec.monitor('recursion_limit_inputs')
    elif not isinstance(val, str):
        rec.violation(case, 'latex_to_text returned %s, not a string | input %r options %r'
                      % (type(val).__name__, s, opts), mech='not-a-string')
    else:
        if any(c in s for c in '\\$~&{') or '--' in s:
            rec.nontrivial((s, case['opts']))
    t = case['opts']
    rec.hist('option_pair', 'mm%d/sp%d' % (t[0], t[1]))
    rec.hist('option_pair', 'mm%d/kc%d' % (t[0], t[2]))
    rec.hist('option_pair', 'mm%d/kb%d' % (t[0], t[3]))
    rec.hist('option_pair', 'mm%d/ft%d' % (t[0], t[4]))
    rec.hist('option_pair', 'sp%d/kc%d' % (t[1], t[2]))
    rec.hist('option_pair', 'sp%d/kb%d' % (t[1], t[3]))
    rec.hist('option_pair', 'sp%d/ft%d' % (t[1], t[4]))
    rec.hist('option_pair', 'kc%d/kb%d' % (t[2], t[3]))
    rec.hist('option_pair', 'kc%d/ft%d' % (t[2], t[4]))
    rec.hist('option_pair', 'kb%d/ft%d' % (t[3], t[4]))


def shrink(v):
    case = dict(v['case'])

    def fails(x):
        r = Recorder()
        check_case(dict(case, s=x), r)
        return r.n_violations > 0
    case['s'] = ddmin_string(case['s'], fails, max_tests=150)
    r = Recorder()
    check_case(case, r)
    return r.violations[0] if r.violations else v


class OptRotor(object):
    """Deterministic rotation through the option product so that every value and every pair of
    values is met over a run; plus random picks."""
    def __init__(self, rng, start=0):
        self.rng = rng
        self.i = start
        self.order = list(ALL_OPTS)
        rng.shuffle(self.order)

    def take(self, k):
        out = []
        for _ in range(k):
            out.append(list(self.order[self.i % len(self.order)]))
            self.i += 1
        return out


def run_shard(desc, rec):
    rng = rng_for(desc)
    rot = OptRotor(rng)
    kind = desc['kind']
    if kind == 'scaling':
        for fi, fam in enumerate(SCALING):
            if fi % desc['n'] == desc['k']:
                check_scaling(fam, desc['sizes'], rec)
        return
    per = desc['per']
    if kind == 'names':
        names = soup.db_names()
        items = [('m', n) for n in names['macros']] + [('e', n) for n in names['environments']]
        for idx, (what, name) in enumerate(items):
            if idx % desc['n'] != desc['k']:
                continue
            if what == 'm':
                rec.hist('macro_name', name)
                temps = MACRO_TEMPLATES
            else:
                rec.hist('env_name', name)
                temps = ENV_TEMPLATES
            for ti, t in enumerate(temps):
                s = t.replace('%%', '\0').replace('%s', name).replace('\0', '%')
                rec.hist('template', what + str(ti))
                for o in rot.take(per):
                    rec.case()
                    check_case({'s': s, 'opts': o}, rec)
                if idx % 97 == 0 and ti == 3:
                    rec.sample({'input': s, 'options': opts_from(o)})
    elif kind == 'pairs':
        # macros and environments whose text rule is a function (they may keep or use state on the converter: \title ...
        # \maketitle) in every ordered pair, with empty and non-empty arguments, in one document
        from pylatexenc.latex2text import get_default_latex_context_db
        tdb = get_default_latex_context_db()
        fn = ['\\' + m.macroname for m in tdb.iter_macro_specs() if callable(m.simplify_repl)]
        forms = [('%s{}', '%s'), ('%s{a}{b}', '%s{}'), ('%s', '%s{c d}'), ('%s{ }', '{%s}')]
        idx = 0
        for a in fn:
            for b in fn:
                idx += 1
                if idx % desc['n'] != desc['k']:
                    continue
                for fa, fb in forms:
                    s = (fa % a) + rng.choice([' ', '\n\n', 'x']) + (fb % b)
                    rec.monitor('function_rule_macro_pairs')
                    for o in rot.take(per):
                        rec.case()
                        check_case({'s': s, 'opts': o}, rec)
    elif kind == 'enum':
        for s in work.enum_strings(desc['L'], desc['k'], desc['n']):
            for o in rot.take(per):
                rec.case()
                check_case({'s': s, 'opts': o}, rec)
    elif kind == 'soup':
        for i, s in enumerate(work.soups(rng, desc['count'])):
            for o in rot.take(per):
                rec.case()
                check_case({'s': s, 'opts': o}, rec)
            if i % 700 == 0:
                rec.sample({'input': s, 'options': opts_from(o)})
    else:
        src = work.DocSource(rng, 'default', depth=desc['depth'])
        for i in range(desc['count']):
            s, ast, bounds, vocab, db, cdesc = src.next()
            for o in rot.take(per):
                rec.case()
                check_case({'s': s, 'opts': o}, rec)


LEVEL_TEXT = ('Exploration with a totality oracle under a logical step budget: the real LatexNodes2Text converts every '
              'macro and environment name of both default databases in 29 templates, all short strings, soups and '
              'generated documents under rotating option tuples that cover every option value and every pair of '
              'option values; each conversion must return a str without raising and within the token-reader step '
              'budget. The property is a universally quantified absence of failure, so broad systematic coverage of '
              'names x templates x options is what this family can offer.')
LEVEL_NOTE = ('Trusted: the step counter on the real token reader; RecursionError on pathological nesting is counted '
              'separately (never produced by the bounded workloads).')
TECHNIQUE = 'runtime monitoring: totality oracle (type, exception, step budget) over every database name x templates x option tuples on the real latex2text'
