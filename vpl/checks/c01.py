"""C01 - the node tree is a lossless, exactly positioned cover of the source.

Refuting events (strict mode, input accepted): top-level nodes do not tile
[0, len) contiguously; list pos/pos_end != (0, len); concatenated verbatim !=
input; a child outside its parent's span, children overlapping or out of
document order; chars/comment text != source slice; a node whose span does not
start/end with the delimiters / name it stands for.  Tolerant mode, arbitrary
strings: only range, nesting and order of whatever is returned.

Oracle: structural walk over the returned tree using public node attributes,
plus the make_node span contract (icontract) observing every node creation.
"""
import re
from ..mon import contracts, canon
from ..shard import rng_for
from .. import work
from ..gen import soup
from ..util import parse, LatexWalkerParseError, ddmin_string
from ..rec import Recorder
from pylatexenc.latexnodes import nodes as N

PROPERTY = 'C01'
LEVEL = 'exploration'
RULE = ('every string up to length L over the 12-symbol LaTeX-significant alphabet (exhaustive, L=4 quick / 5 '
        'thorough) in strict mode (those accepted) and in tolerant mode (all); random token soups over every '
        'macro/environment name of the default databases; grammar-generated documents under the default context '
        'and under generated custom contexts with every standard argument type. Non-trivial = accepted input whose '
        'tree has >= 2 node kinds; distinct = distinct input.')
EXHAUSTIVE = {'quick': False, 'thorough': False}
ASSUMPTIONS = ['children of a node = its argument nodes in slot order (node lists expanded) followed by its body',
               'contracts backend: ' + contracts.BACKEND]


def plan(tier, seed):
    if tier == 'quick':
        sh = [{'kind': 'enum', 'L': 4, 'k': k, 'n': 6, 'name': 'enum%d' % k} for k in range(6)]
        sh += [{'kind': 'soup', 'count': 6000, 'name': 'soup%d' % k} for k in range(4)]
        sh += [{'kind': 'nlargs', 'count': 4000, 'name': 'nlargs'}]
        sh += [{'kind': 'docs', 'vocab': 'default', 'count': 1500, 'depth': 4, 'name': 'ddoc%d' % k} for k in range(3)]
        sh += [{'kind': 'docs', 'vocab': 'custom', 'count': 1500, 'depth': 4, 'name': 'cdoc%d' % k, 'cb': k * 50}
               for k in range(3)]
        return sh
    sh = [{'kind': 'enum', 'L': 5, 'k': k, 'n': 16, 'name': 'enum%d' % k} for k in range(16)]
    sh += [{'kind': 'soup', 'count': 100000, 'name': 'soup%d' % k} for k in range(16)]
    sh += [{'kind': 'nlargs', 'count': 40000, 'name': 'nlargs%d' % k} for k in range(4)]
    sh += [{'kind': 'docs', 'vocab': 'default', 'count': 15000, 'depth': 4 + k % 3, 'name': 'ddoc%d' % k} for k in range(16)]
    sh += [{'kind': 'docs', 'vocab': 'custom', 'count': 15000, 'depth': 4 + k % 3, 'name': 'cdoc%d' % k, 'cb': k * 500}
           for k in range(16)]
    return sh


def floors(tier):
    return {'evaluations': 20000, 'distinct_nontrivial': 3000, 'strict_trees_checked': 8000,
            'tolerant_trees_checked': 15000, 'make_node_span_in_input': 50000, 'nodes_checked': 100000,
            'histkeys:adjacent_pair': 25, 'hist:workload:custom-docs': 500,
            'new_style_verbatim_env_nodes': 100, 'hist:workload:configured-start-state': 1000}


def setup(rec):
    contracts.install_node_contracts()


def is_list(x):
    return isinstance(x, (list, tuple, N.LatexNodeList))


def span_ok(n, L):
    p, e = getattr(n, 'pos', None), getattr(n, 'pos_end', None)
    return isinstance(p, int) and isinstance(e, int) and 0 <= p <= e <= L


def flat_children(n):
    """Children of a node in document order: arguments (slot order, lists expanded), then body."""
    out = []
    nad = getattr(n, 'nodeargd', None)
    if nad is not None and getattr(nad, 'argnlist', None):
        for a in nad.argnlist:
            if a is None:
                continue
            if is_list(a):
                out.extend(x for x in a if x is not None)
            else:
                out.append(a)
    body = getattr(n, 'nodelist', None)
    if body is not None:
        out.extend(x for x in body if x is not None)
    return out


def check_nesting(n, lo, hi, L, rec, strict, s, path):
    """Range, nesting, order (both modes); content (strict only).  Returns error or None."""
    if not span_ok(n, L):
        return '%s: %s has span %r..%r outside the input (len %d)' % (path, canon.kind(n), getattr(n, 'pos', None),
                                                                      getattr(n, 'pos_end', None), L)
    if n.pos < lo or n.pos_end > hi:
        return '%s: %s span %d..%d is not inside its parent/sibling bounds %d..%d' % (
            path, canon.kind(n), n.pos, n.pos_end, lo, hi)
    rec.monitor('nodes_checked')
    k = canon.kind(n)
    rec.hist('node_kind', k)
    if k == 'env' and n.environmentname == 'vcode':
        rec.monitor('new_style_verbatim_env_nodes')
    if strict:
        err = check_content(n, k, s, path)
        if err:
            return err
    if strict:
        err = check_interior(n, k, s, path)
        if err:
            return err
    cur = n.pos
    # lists attached to the node must be in range as well
    for attr in ('nodelist',):
        nl = getattr(n, attr, None)
        if isinstance(nl, N.LatexNodeList) and nl.pos is not None and nl.pos_end is not None:
            if not (n.pos <= nl.pos <= nl.pos_end <= n.pos_end):
                return '%s: body list span %r..%r outside its %s %d..%d' % (path, nl.pos, nl.pos_end, k, n.pos, n.pos_end)
    for i, c in enumerate(flat_children(n)):
        err = check_nesting(c, cur, n.pos_end, L, rec, strict, s, '%s/%s[%d]' % (path, k, i))
        if err:
            return err
        cur = c.pos_end
    return None


_END_RX = {}
_BLANK_OR_COMMENTS = re.compile(r'(?:\s|%[^\n]*(?:\n|$))*$')


def only_blank_or_comments(t):
    return _BLANK_OR_COMMENTS.match(t) is not None


def check_interior(n, k, s, path):
    """Strict mode: the source covered by a node is made of what the node stands for -- its
    delimiters / name, its children, and nothing else but blanks and comments between a call and
    its arguments.  (A node that swallows source text none of its parts stands for is not a
    lossless cover.)"""
    kids = flat_children(n)
    if k in ('group', 'math'):
        d = n.delimiters
        if d is None or d[0] is None or d[1] is None:
            return None
        lo, hi = n.pos + len(d[0]), n.pos_end - len(d[1])
        body = [c for c in (n.nodelist or []) if c is not None]
        # comma-separated list arguments (LatexCharsCommaSeparatedListParser): the children are element groups with
        # delimiters ('', ',') and, unless keep_empty_parts is set, empty elements are documented to be left out --
        # the only text such a group may hold outside its children is the separators of those empty elements
        comma_list = all(canon.kind(c) == 'group' and c.delimiters is not None and c.delimiters[0] == '' for c in body)
        cur = lo
        # an embellishment (marker character + its argument) is reported as a group with delimiters (marker, ''): blanks
        # and comments between the marker and the argument belong to the call, as between any call and its argument
        marker_group = (d[1] == '' and d[0] != '')
        for c in body:
            if marker_group and c.pos > cur and only_blank_or_comments(s[cur:c.pos]):
                cur = c.pos
            if c.pos != cur and not (comma_list and c.pos > cur and set(s[cur:c.pos]) <= set(',')):
                return '%s: %s body is not contiguous: child at %d, expected %d (covers %r)' % (
                    path, k, c.pos, cur, s[n.pos:n.pos_end])
            cur = c.pos_end
        if cur != hi and comma_list and cur < hi and set(s[cur:hi]) <= set(','):
            cur = hi
        if cur != hi:
            return '%s: %s body ends at %d but the closing delimiter starts at %d (covers %r)' % (
                path, k, cur, hi, s[n.pos:n.pos_end])
        return None
    if k in ('macro', 'specials', 'env'):
        if (k == 'macro' and n.macroname == 'verb') or (k == 'env' and n.environmentname in ('verbatim', 'lstlisting')):
            # legacy verbatim constructs: the argument node stands for the verbatim text only,
            # its delimiters belong to the call itself
            return None
        if k == 'macro':
            head = 1 + len(n.macroname)
        elif k == 'specials':
            if n.specials_chars == '\n\n':
                return None
            head = len(n.specials_chars)
        else:
            m = re.match(r'\\begin\s*\{' + re.escape(n.environmentname) + r'\}', s[n.pos:n.pos_end])
            if not m:
                return None
            head = m.end()
        nad = getattr(n, 'nodeargd', None)
        args = []
        if nad is not None and getattr(nad, 'argnlist', None):
            for a in nad.argnlist:
                if a is None:
                    continue
                if is_list(a):
                    args.extend(x for x in a if x is not None)
                else:
                    args.append(a)
        cur = n.pos + head
        for a in args:
            gap = s[cur:a.pos]
            if a.pos < cur or not only_blank_or_comments(gap):
                return '%s: %s swallows %r between its name/arguments (covers %r)' % (
                    path, k, gap, s[n.pos:n.pos_end])
            cur = a.pos_end
        if k != 'env':
            gap = s[cur:n.pos_end]
            if not only_blank_or_comments(gap):
                return '%s: %s covers %r after its last argument, which no child stands for (covers %r)' % (
                    path, k, gap, s[n.pos:n.pos_end])
            return None
        body = [c for c in (n.nodelist or []) if c is not None]
        m2 = _END_RX.get(n.environmentname)
        if m2 is None:
            m2 = _END_RX[n.environmentname] = re.compile(r'\\end\s*\{' + re.escape(n.environmentname) + r'\}$')
        mm = m2.search(s[n.pos:n.pos_end])
        if not mm:
            return None
        hi = n.pos + mm.start()
        for c in body:
            if c.pos != cur:
                gap = s[cur:c.pos]
                if c.pos < cur or (cur != (args[-1].pos_end if args else n.pos + head)) or not only_blank_or_comments(gap):
                    return '%s: environment body is not contiguous: child at %d, expected %d (covers %r)' % (
                        path, c.pos, cur, s[n.pos:n.pos_end])
            cur = c.pos_end
        if cur != hi and body:
            return '%s: environment body ends at %d but \\end starts at %d (covers %r)' % (
                path, cur, hi, s[n.pos:n.pos_end])
        if not body and not only_blank_or_comments(s[cur:hi]):
            return '%s: environment without body nodes covers %r' % (path, s[cur:hi])
    return None



def check_content(n, k, s, path):
    seg = s[n.pos:n.pos_end]
    if k == 'chars':
        if n.chars != seg:
            return '%s: chars node text %r differs from source slice %r at %d..%d' % (path, n.chars, seg, n.pos, n.pos_end)
    elif k == 'comment':
        want = n.comment + (n.comment_post_space or '')
        if not (seg.endswith(want) and len(seg) > len(want) and seg[:len(seg) - len(want)] in ('%',)):
            return '%s: comment node %r+%r does not match source slice %r' % (path, n.comment, n.comment_post_space, seg)
    elif k in ('group', 'math'):
        d = n.delimiters
        if d is not None and d[0] is not None and d[1] is not None:
            if not seg.startswith(d[0]) or not seg.endswith(d[1]) or len(seg) < len(d[0]) + len(d[1]):
                return '%s: %s node with delimiters %r covers %r' % (path, k, tuple(d), seg)
    elif k == 'macro':
        if not (seg[:1] == '\\' and seg[1:].startswith(n.macroname)):
            return '%s: macro node %r covers %r' % (path, n.macroname, seg)
    elif k == 'env':
        name = n.environmentname
        rx = _END_RX.get(name)
        if rx is None:
            rx = _END_RX[name] = re.compile(r'\\end\s*\{' + re.escape(name) + r'\}$')
        if not seg.startswith('\\begin') or not rx.search(seg):
            return '%s: environment node %r covers %r' % (path, name, seg)
    elif k == 'specials':
        sc = n.specials_chars
        if sc == '\n\n':
            if seg.count('\n') < 2 or seg.strip():
                return '%s: paragraph specials covers %r' % (path, seg)
        elif not seg.startswith(sc):
            return '%s: specials node %r covers %r' % (path, sc, seg)
    return None


def check_tree(s, nl, strict, rec):
    L = len(s)
    if nl is None:
        return 'parse returned None instead of a node list' if strict else None
    if not is_list(nl):
        return 'parse returned %s instead of a node list' % type(nl).__name__
    nodes = [n for n in nl]
    if strict and any(n is None for n in nodes):
        return 'None entry in the top-level node list'
    nodes = [n for n in nodes if n is not None]
    cur = 0
    prev_kind = '^'
    for i, n in enumerate(nodes):
        err = check_nesting(n, cur, L, L, rec, strict, s, 'top[%d]' % i)
        if err:
            return err
        if strict and n.pos != cur:
            return 'gap/overlap: top-level node %d (%s) starts at %d, previous ended at %d' % (i, canon.kind(n), n.pos, cur)
        cur = n.pos_end
        k = canon.kind(n)
        if strict:
            rec.hist('adjacent_pair', prev_kind + '>' + k)
        prev_kind = k
    if strict:
        if cur != L:
            return 'top-level nodes end at %d, input has length %d' % (cur, L)
        if isinstance(nl, N.LatexNodeList):
            if nodes and (nl.pos, nl.pos_end) != (0, L):
                return 'node list reports span %r..%r, input is 0..%d' % (nl.pos, nl.pos_end, L)
            v = nl.latex_verbatim()
            if v != s:
                return 'latex_verbatim() of the node list is %r, not the input' % (v,)
        v2 = ''.join(n.latex_verbatim() for n in nodes)
        if v2 != s:
            return 'concatenated verbatim of the top-level nodes is %r, not the input' % (v2,)
    return None


def check_case(case, rec):
    s = case['s']
    ctx = work.ctx_for(case.get('ctx'))
    modes = case.get('modes', ['strict', 'tolerant'])
    for mode in modes:
        strict = (mode == 'strict')
        try:
            nl = parse(s, ctx=ctx, tolerant=not strict, psopts=case.get('psopts'))
        except LatexWalkerParseError:
            if strict:
                rec.monitor('strict_rejected')
                continue
            rec.monitor('tolerant_raised')      # C06's business
            continue
        except Exception as e:
            rec.hist('foreign_exception', type(e).__name__)   # C05/C06's business
            continue
        err = check_tree(s, nl, strict, rec)
        rec.monitor('strict_trees_checked' if strict else 'tolerant_trees_checked')
        for cname, msg in contracts.drain():
            rec.violation(case, 'contract %s: %s | input %r (%s)' % (cname, msg, s, mode), mech='contract')
        if strict and nl is not None:
            kinds = set(canon.kind(n) for n in canon.walk(nl))
            if len(kinds) >= 2:
                rec.nontrivial(s)
        if err:
            rec.violation(case, '%s mode: %s | input %r | tree %s' % (mode, err, s, canon.short(nl)[:600]),
                          mech=mode + ':' + err.split(':')[0][:30])
    contracts.drain()


def shrink(v):
    case = dict(v['case'])
    if case.get('ctx') and case['ctx'].get('vocab') != 'default':
        pass

    def fails(x):
        r = Recorder()
        check_case(dict(case, s=x), r)
        return r.n_violations > 0
    case['s'] = ddmin_string(case['s'], fails)
    r = Recorder()
    check_case(case, r)
    return r.violations[0] if r.violations else v


def run_shard(desc, rec):
    rng = rng_for(desc)
    kind = desc['kind']
    if kind == 'enum':
        for s in work.enum_strings(desc['L'], desc['k'], desc['n']):
            rec.case()
            rec.hist('workload', 'enum')
            check_case({'s': s}, rec)
    elif kind == 'nlargs':
        # node-list valued arguments (embellishments, optional markers with full node lists, tack-on macros)
        for s in work.nlargs_strings(rng, desc['count']):
            rec.case()
            rec.hist('workload', 'nodelist-args')
            check_case({'s': s, 'ctx': {'vocab': 'nlargs'}}, rec)
    elif kind == 'soup':
        for i, s in enumerate(work.soups(rng, desc['count'])):
            rec.case()
            rec.hist('workload', 'soup')
            if i % 400 == 0:
                rec.sample(s)
            check_case({'s': s}, rec)
        # the walker started from a non-default parsing state (the comment / escape character configurations are left
        # to C11 and C17: the interior oracle reads comments and control sequences with the default characters)
        cfgs = [c for c in work.PS_CONFIGS if 'comment_start' not in c and 'macro_escape_char' not in c]
        for i, s in enumerate(work.soups(rng, max(300, desc['count'] // 3))):
            rec.case()
            rec.hist('workload', 'configured-start-state')
            check_case({'s': s, 'psopts': cfgs[i % len(cfgs)]}, rec)
    else:
        src = work.DocSource(rng, desc['vocab'], depth=desc['depth'], cover_base=desc.get('cb', 0))
        for i in range(desc['count']):
            s, ast, bounds, vocab, db, cdesc = src.next()
            rec.case()
            rec.hist('workload', desc['vocab'] + '-docs')
            if i % 150 == 0:
                rec.sample(s)
            check_case({'s': s, 'ctx': cdesc}, rec)
    for name, c in contracts.COUNTS.items():
        rec.monitor(name, c)
    contracts.COUNTS.clear()


LEVEL_TEXT = ('Exploration with a structural oracle and an online contract: every tree returned by the real parser for '
              'all strings up to length 4/5 over the significant alphabet, tens of thousands of soups over all '
              'database names and thousands of generated documents (default and custom contexts with all ten '
              'argument types) is walked; tiling, nesting, order, text-equals-slice and delimiter/name-at-span are '
              'asserted in strict mode, range/nesting/order in tolerant mode, and make_node is monitored with an '
              'icontract postcondition for every node created. Span arithmetic is spread over many parsers, so the '
              'evidence reports the adjacency pairs of construct kinds actually observed.')
LEVEL_NOTE = ('Trusted: the walk in vpl/checks/c01.py (children = arguments in slot order, then body). Inputs rejected in '
              'strict mode are outside the quantifier and only counted.')
TECHNIQUE = 'runtime monitoring: structural span oracle over returned trees + icontract postcondition on make_node, bounded-exhaustive strings, soups and generated documents'
