"""C06 - tolerant mode: total, equals strict on valid input, keeps pre-error content.

Refuting events: tolerant parsing raises anything; exceeds the logical step
budget (no progress) or the watchdog twice; returns something that is not a
node list; differs from the strict tree on an input the strict parser accepts;
loses or alters a top-level node of a well-formed document D when D is followed
by a stray closing token and garbage.

Oracle: canonical dumps (positions, modes, contents) of strict vs tolerant
trees; prefix rule: every top-level node of strict(D) appears unchanged and in
order at the start of tolerant(D + closer + garbage), except that a final chars
node of D may be extended by following characters.
"""
import json
from ..shard import rng_for
from .. import work
from ..gen import soup
from ..mon import budget, canon
from ..util import parse, LatexWalkerParseError, ddmin_string
from ..rec import Recorder
from pylatexenc.latexnodes import nodes as N

PROPERTY = 'C06'
LEVEL = 'exploration'
RULE = ('every string up to length L over the 12-symbol alphabet (L=4 quick / 5 thorough, exhaustive) and random '
        'soups over every default-database name, parsed tolerantly under a token-reader step budget and compared '
        'with the strict tree when strict parsing succeeds; generated well-formed documents D (default and custom '
        'contexts) x 8 stray closers x garbage tails, and a fixed closed document followed by every enumerated '
        'string, checked with the prefix rule; generated documents truncated at token boundaries and followed by 9 kinds '
        'of broken tail (lone backslash, stray closers, unfinished \\begin ...), checked for totality and for retention '
        'of every text piece written before the cut. Non-trivial = input on which strict parsing fails (tolerant recovery '
        'exercised) or a D+closer+garbage case; distinct = distinct input.')
EXHAUSTIVE = {'quick': False, 'thorough': False}
ASSUMPTIONS = ['step budget: A*(len+1)+B token-reader calls with A=400, B=4000 (>= 20x the measured maximum on the '
               'unchanged tree, recorded as max_steps_per_char); wall-clock watchdog 20 s per case is inconclusive only',
               'a final chars node of D may be extended by the characters that follow it']
CLOSERS = ['}', '\\end{x}', '\\)', '\\]', ']}', '}}', '$}', '\\end{itemize}']
TAILS = ['', 'x', ' tail', '{', '\\textbf', '$y', '\\begin{z}q', '%c', '}\\end{y}', '\\']
FIXED_D = 'ab{c}$d$\n\n\\textbf{e}{f}'


def plan(tier, seed):
    if tier == 'quick':
        sh = [{'kind': 'enum', 'L': 4, 'k': k, 'n': 6, 'name': 'enum%d' % k} for k in range(6)]
        sh += [{'kind': 'soup', 'count': 5000, 'name': 'soup%d' % k} for k in range(4)]
        sh += [{'kind': 'prefix', 'vocab': 'default', 'count': 250, 'depth': 4, 'name': 'pfd%d' % k} for k in range(3)]
        sh += [{'kind': 'prefix', 'vocab': 'custom', 'count': 250, 'depth': 4, 'name': 'pfc%d' % k, 'cb': 20 * k} for k in range(3)]
        sh += [{'kind': 'truncate', 'vocab': v, 'count': 400, 'cuts': 8, 'depth': 4, 'name': 'trunc%s%d' % (v[0], k), 'cb': 77 * k}
               for k in range(2) for v in ('default', 'custom')]
        return sh
    sh = [{'kind': 'enum', 'L': 5, 'k': k, 'n': 16, 'name': 'enum%d' % k} for k in range(16)]
    sh += [{'kind': 'soup', 'count': 30000, 'name': 'soup%d' % k} for k in range(12)]
    sh += [{'kind': 'prefix', 'vocab': 'default', 'count': 2500, 'depth': 4 + k % 3, 'name': 'pfd%d' % k} for k in range(8)]
    sh += [{'kind': 'prefix', 'vocab': 'custom', 'count': 2500, 'depth': 4 + k % 3, 'name': 'pfc%d' % k, 'cb': 100 * k} for k in range(8)]
    sh += [{'kind': 'truncate', 'vocab': v, 'count': 3000, 'cuts': 1000, 'depth': 4 + k % 3, 'name': 'trunc%s%d' % (v[0], k), 'cb': 177 * k}
           for k in range(6) for v in ('default', 'custom')]
    return sh


def floors(tier):
    return {'evaluations': 40000, 'distinct_nontrivial': 15000, 'tolerant_parses': 40000,
            'strict_equal_compared': 10000, 'prefix_rule_checked': 8000, 'recovery_exercised': 15000,
            'text_retention_checked': 20000, 'histkeys:truncation_tail': 9,
            'custom_context_soups': 500, 'parser_class_context_soups': 1000,
            'parses_from_configured_state': 2000, 'stop_condition_entry_points': 3000, 'parser_class_truncations': 1000, 'k5_witness_checked': 1, 'prefix_cover_checked': 20000, 'closed_prefix_compared': 1000, 'configured_state_special_character_strings': 2000, 'histkeys:start_state': 17}


WF_PARSER_CLASS_ATOMS = ['\\csl{WORD,WORD,WORD}', '\\csl{WORD, {WORD,WORD} ,WORD}', '\\chg{WORD{WORD}WORD}', '\\anyd(WORD)',
                         '\\full{WORD}', '\\ttl{WORD}\\label{WORD}', '\\flag* ', 'WORD ', '\\emb^{WORD}_WORD ', '\\lgc*[WORD]{WORD}',
                         '\\anyd[WORD]', '{WORD}', '\\lgd{WORD}*', '\\begin{envf}+WORD\\end{envf}', '\\csl{WORD}']


def setup(rec):
    budget.install()


def tolerant_parse(s, ctx, rec, psopts=None):
    """('ok', nodes) | ('exc', e) | ('budget', msg) | ('watchdog', msg)"""
    budget.begin(budget.limit_for(s))
    try:
        with budget.watchdog(20):
            nl = parse(s, ctx=ctx, tolerant=True, psopts=psopts)
            if len(s) % 4 == 1 and not psopts:
                # the entry points with a node-count stop condition are tolerant too
                from ..util import walker
                from pylatexenc.latexnodes.parsers import LatexSingleNodeParser
                rec.monitor('stop_condition_entry_points')
                walker(s, ctx, tolerant=True).get_latex_nodes(read_max_nodes=1 + len(s) % 3)
                walker(s, ctx, tolerant=True).parse_content(LatexSingleNodeParser())
        return 'ok', nl
    except budget.StepBudgetExceeded as e:
        return 'budget', str(e)
    except budget.WatchdogExpired as e:
        return 'watchdog', str(e)
    except RecursionError as e:
        return 'recursion', e
    except Exception as e:
        return 'exc', e
    finally:
        n = budget.end()
        rec.note_max('max_steps_per_char', round(n / float(len(s) + 1), 2))
        rec.note_max('max_steps', n)


def dump(nl):
    return [canon.canon(n) for n in nl]


def legacy_dummy_argument(nl):
    """Does the tree hold a macro whose spec uses a pylatexenc-2 arguments parser object (MacroStandardArgsParser) and one
    of whose arguments is the zero-width empty chars node that legacy get_latex_expression() substitutes for a missing
    expression before a closing brace (strict_braces=False)?"""
    from pylatexenc.macrospec import MacroStandardArgsParser
    for n in canon.walk(nl):
        if canon.kind(n) != 'macro' or getattr(n, 'spec', None) is None or n.nodeargd is None:
            continue
        ap = getattr(n.spec, 'arguments_parser', None)
        if not isinstance(getattr(ap, 'args_parser', None), MacroStandardArgsParser):
            continue
        for a in (n.nodeargd.argnlist or []):
            if a is not None and canon.kind(a) == 'chars' and a.chars == '' and a.pos == a.pos_end:
                return True
    return False


def classify(case, msg, mech):
    if mech == 'K5':
        return 'legacy-argsparser-missing-argument-before-closing-brace'
    return None


def check_case(case, rec):
    s = case['s']
    ctx = work.ctx_for(case.get('ctx'))
    rec.monitor('tolerant_parses')
    psopts = case.get('psopts')
    if psopts:
        rec.monitor('parses_from_configured_state')
        rec.hist('start_state', json.dumps(psopts, sort_keys=True))
    what, val = tolerant_parse(s, ctx, rec, psopts)
    if what == 'exc':
        import traceback
        tb = traceback.extract_tb(val.__traceback__)
        where = '%s:%d' % (tb[-1].filename.split('/')[-1], tb[-1].lineno) if tb else '?'
        rec.violation(case, 'tolerant parsing raised %s: %s [%s] | input %r' % (type(val).__name__, str(val)[:200], where, s),
                      mech='raises:' + type(val).__name__)
        return
    if what == 'budget':
        rec.violation(case, 'tolerant parsing makes no progress: %s | input %r' % (val, s), mech='no-progress')
        return
    if what == 'watchdog':
        rec.inconclusive_case('watchdog on %r' % (s,))
        return
    if what == 'recursion':
        rec.monitor('recursion_limit_inputs')
        return
    nl = val
    if not isinstance(nl, N.LatexNodeList):
        rec.violation(case, 'tolerant parsing returned %s instead of a node list | input %r' % (
            'None' if nl is None else type(nl).__name__, s), mech='not-a-list')
        return
    # strict comparison
    strict_error_pos = None
    try:
        snl = parse(s, ctx=ctx, tolerant=False, psopts=psopts)
        strict_ok = True
    except LatexWalkerParseError as e:
        strict_ok = False
        strict_error_pos = e.pos if isinstance(getattr(e, 'pos', None), int) else None
    except Exception:
        strict_ok = False       # C05's business
    if strict_ok:
        rec.monitor('strict_equal_compared')
        a, b = dump(snl), dump(nl)
        if a != b or (snl.pos, snl.pos_end) != (nl.pos, nl.pos_end):
            mech = 'differs-from-strict'
            if legacy_dummy_argument(snl):
                # known finding K5: mechanism = strict mode itself accepted a missing argument of a macro declared through
                # a pylatexenc-2 arguments parser object by inserting the documented empty dummy chars node
                mech = 'K5'
            rec.violation(case, 'tolerant tree differs from the strict tree on a valid input | input %r | strict %s | '
                          'tolerant %s' % (s, canon.short(snl)[:500], canon.short(nl)[:500]), mech=mech)
            return
    else:
        rec.monitor('recovery_exercised')
        rec.nontrivial(s)
        # nothing written before the first error may fall out of the tree: up to the position of the strict-mode error the
        # top-level nodes of the tolerant result cover the input without a gap
        if strict_error_pos is not None:
            cur = 0
            for n in nl:
                if n is None or not isinstance(getattr(n, 'pos', None), int) or not isinstance(getattr(n, 'pos_end', None), int):
                    break
                if cur >= strict_error_pos:
                    break
                if n.pos > cur:
                    rec.violation(case, 'input %r at %d..%d, before the first error at %d, is covered by no node of the tolerant '
                                  'result | input %r | tree %s' % (s[cur:n.pos], cur, n.pos, strict_error_pos, s,
                                                                   canon.short(nl)[:400]), mech='prefix-gap')
                    return
                cur = max(cur, n.pos_end)
            rec.monitor('prefix_cover_checked')
            # ... and what was completely read before it is returned as it was read: the top-level nodes up to the last closed
            # construct (group, formula, environment) that ends before the error are the strict parse of that part of the input
            if 'dlen' not in case:
                k = 0
                cur = 0
                for i, n in enumerate(nl):
                    if n is None or not isinstance(getattr(n, 'pos', None), int) or not isinstance(getattr(n, 'pos_end', None), int) \
                            or n.pos != cur or n.pos_end > strict_error_pos:
                        break
                    cur = n.pos_end
                    if canon.kind(n) in ('group', 'math', 'environment'):
                        k = i + 1
                if k:
                    D = s[:nl[k - 1].pos_end]
                    try:
                        dnl = parse(D, ctx=ctx, tolerant=False, psopts=psopts)
                    except Exception:
                        dnl = None
                        rec.monitor('closed_prefix_rejected')
                    if dnl is not None:
                        rec.monitor('closed_prefix_compared')
                        want, got = dump(dnl), dump(nl)[:k]
                        if want != got:
                            i = next((j for j in range(min(len(want), len(got))) if want[j] != got[j]), min(len(want), len(got)))
                            rec.violation(case, 'content before the first error (at %d) was altered: the input up to %d parses in '
                                          'strict mode to %s but tolerant parsing of the whole input starts with %s (first '
                                          'difference at top-level node %d) | input %r' % (
                                              strict_error_pos, len(D), canon.short(dnl)[:300], canon.short(nl[:k])[:300], i, s),
                                          mech='prefix-altered')
                            return
    if 'kept_text' in case:
        # text written before the cut must still be there: each plain-text piece of the valid prefix is
        # carried by chars nodes of the tolerant result at its own position
        rec.monitor('text_retention_checked')
        cover = {}
        for n in canon.walk(nl):
            if canon.kind(n) == 'chars' and isinstance(n.pos, int):
                for k, ch in enumerate(n.chars):
                    cover[n.pos + k] = ch
        for a, b in case['kept_text']:
            if any(cover.get(p) != s[p] for p in range(a, b)):
                rec.violation(case, 'text %r written at %d, before the first error at %d, is missing from the tolerant result '
                              '| input %r | tree %s' % (s[a:b], a, case['cut'], s, canon.short(nl)[:400]), mech='text-lost')
                return
    if 'dlen' in case:
        # prefix rule
        D = s[:case['dlen']]
        try:
            dnl = parse(D, ctx=ctx, tolerant=False)
        except Exception:
            rec.monitor('prefix_document_rejected')
            return
        rec.monitor('prefix_rule_checked')
        want = dump(dnl)
        got = dump(nl)
        err = None
        if len(got) < len(want):
            err = 'only %d top-level nodes returned, the valid prefix has %d' % (len(got), len(want))
        else:
            for i, (w, g) in enumerate(zip(want, got)):
                if w == g:
                    continue
                last = (i == len(want) - 1)
                if last and w['k'] == 'chars' and g['k'] == 'chars' and g['pos'] == w['pos'] \
                        and g['chars'].startswith(w['chars']) and g['ps'] == w['ps']:
                    continue
                err = 'top-level node %d of the valid prefix is %s but tolerant parsing returned %s' % (
                    i, canon.short(dnl[i])[:200], canon.short(nl[i])[:200])
                break
        if err:
            rec.violation(case, 'content before the first error was lost or altered: %s | prefix %r | rest %r'
                          % (err, D, s[case['dlen']:]), mech='prefix-lost')


def shrink(v):
    case = dict(v['case'])
    if 'dlen' in case or 'kept_text' in case:
        return v        # positions in the case refer to this very input

    def fails(x):
        r = Recorder()
        check_case(dict(case, s=x), r)
        return r.n_violations > 0
    case['s'] = ddmin_string(case['s'], fails, max_tests=150)
    r = Recorder()
    check_case(case, r)
    return r.violations[0] if r.violations else v


def run_shard(desc, rec):
    rng = rng_for(desc)
    kind = desc['kind']
    if kind == 'enum':
        for s in work.enum_strings(desc['L'], desc['k'], desc['n']):
            rec.case()
            check_case({'s': s}, rec)
            # the same string as garbage after a closed valid document
            rec.case()
            check_case({'s': FIXED_D + s, 'dlen': len(FIXED_D)}, rec)
    elif kind == 'soup':
        for i, s in enumerate(work.soups(rng, desc['count'])):
            rec.case()
            if i % 500 == 0:
                rec.sample(s)
            check_case({'s': s}, rec)
        # soups over generated custom contexts (every standard argument type) and over a context using the argument
        # parser classes that have no argument-string spelling
        for j in range(max(1, desc['count'] // 400)):
            vseed = [rng.randrange(1 << 30), j]
            vocab, db = work.vocab_from_seed(vseed)
            for s in work.custom_soups(rng, vocab, 100):
                rec.case()
                rec.monitor('custom_context_soups')
                check_case({'s': s, 'ctx': {'vocab': 'custom', 'vseed': vseed}}, rec)
        for s in work.nlargs_strings(rng, max(200, desc['count'] // 4)):
            rec.case()
            rec.monitor('parser_class_context_soups')
            check_case({'s': s, 'ctx': {'vocab': 'nlargs'}}, rec)
        # known finding K5, deterministic witness
        rec.case()
        rec.monitor('k5_witness_checked')
        check_case({'s': '{{}\\lgc%\n}', 'ctx': {'vocab': 'nlargs'}, 'special': 'K5-witness'}, rec)
        # text retention in the parser-class context: well-formed calls with unique words, cut at every position and
        # followed by a broken tail -- every word written before the cut is still carried by a chars node at its place
        import re as _re
        for _ in range(max(20, desc['count'] // 150)):
            parts = [rng.choice(WF_PARSER_CLASS_ATOMS) for _ in range(rng.randint(1, 4))]
            doc, n = '', 0
            for part in parts:
                while 'WORD' in part:
                    n += 1
                    part = part.replace('WORD', 'qz%dq' % n, 1)
                doc += part
            spans = [(m.start(), m.end()) for m in _re.finditer(r'qz\d+q', doc)]
            for c in range(1, len(doc) + 1):
                if any(a < c < b for a, b in spans):
                    continue
                tail = rng.choice(['', '', '}', '\\', ' \\end{x}', '$', ']'])
                rec.case()
                rec.monitor('parser_class_truncations')
                check_case({'s': doc[:c] + tail, 'ctx': {'vocab': 'nlargs'}, 'cut': c,
                            'kept_text': [[a, b] for (a, b) in spans if b <= c]}, rec)
        # the walker started from a non-default parsing state (every switch of ParsingState)
        for i, s in enumerate(work.soups(rng, max(400, desc['count'] // 3))):
            rec.case()
            check_case({'s': s, 'psopts': work.PS_CONFIGS[i % len(work.PS_CONFIGS)]}, rec)
        # ... and strings built around the characters each configuration gives a special meaning
        for cfg in work.PS_CONFIGS:
            special = ''.join(str(v) for k, v in cfg.items() if k in ('forbidden_characters', 'macro_escape_char',
                                                                      'comment_start', 'macro_alpha_chars'))
            special += ''.join(c for pair in (cfg.get('latex_group_delimiters') or []) for c in pair)
            special += ''.join(c for k in ('latex_inline_math_delimiters', 'latex_display_math_delimiters')
                               for pair in (cfg.get(k) or []) for c in pair)
            atoms = sorted(set(special)) + [' ', '\n', 'x', '{b}', '\\alpha ', '$', 'a', '%c\n', '}', '\\textbf']
            for _ in range(40):
                rec.case()
                rec.monitor('configured_state_special_character_strings')
                check_case({'s': ''.join(rng.choice(atoms) for _ in range(rng.randint(1, 6))), 'psopts': cfg}, rec)
    elif kind == 'truncate':
        from ..gen import doc as D
        tails = ['', '\\', '}', '$', '\\begin', '{', ']', '\\end{x}', '%']
        src = work.DocSource(rng, desc['vocab'], depth=desc['depth'], cover_base=desc.get('cb', 0))
        for i in range(desc['count']):
            s, ast, bounds, vocab, db, cdesc = src.next()
            tsp = [(a, b) for (a, b, m, d) in D.LAST_RENDER['tspans']]
            cuts = bounds if len(bounds) <= desc['cuts'] else rng.sample(bounds, desc['cuts'])
            for c in cuts:
                for tail in rng.sample(tails, 3):
                    rec.case()
                    rec.hist('truncation_tail', tail or '(none)')
                    case = {'s': s[:c] + tail, 'ctx': cdesc, 'cut': c, 'kept_text': [[a, b] for (a, b) in tsp if b <= c]}
                    if (i * 13 + c) % 2999 == 0:
                        rec.sample({'document': s, 'cut': c, 'tail': tail})
                    check_case(case, rec)
    else:
        src = work.DocSource(rng, desc['vocab'], depth=desc['depth'], cover_base=desc.get('cb', 0))
        for i in range(desc['count']):
            s, ast, bounds, vocab, db, cdesc = src.next()
            if not bounds or bounds[-1] != len(s):
                continue        # ends inside a comment: anything appended would be commented out
            if ast and ast[-1][0] == 'M':
                # a trailing macro could take what follows as an (optional) argument
                s = s + '{}'
            for closer in CLOSERS:
                tail = rng.choice(TAILS)
                rec.case()
                case = {'s': s + closer + tail, 'dlen': len(s), 'ctx': cdesc}
                if (i * 7) % 501 == 0 and closer == '}':
                    rec.sample({'document': s, 'closer': closer, 'tail': tail})
                check_case(case, rec)


LEVEL_TEXT = ('Exploration under a logical step budget with differential and prefix oracles: the real tolerant parser is '
              'run on all short strings, soups over all database names, and generated documents followed by stray '
              'closers and garbage; every run must return a node list without raising and within a token-reader step '
              'budget (termination is decided on logical steps, the wall-clock watchdog only yields inconclusive), '
              'must equal the strict tree whenever strict parsing succeeds, and must keep every top-level node of the '
              'valid prefix.')
LEVEL_NOTE = ('Trusted: canonical dump (vpl/mon/canon.py), the step counter wrapped around the real LatexTokenReader '
              'methods, the generator for D. The prefix rule is only applied where D is closed (documents ending in an '
              'open comment are skipped, a trailing macro gets an empty group appended).')
TECHNIQUE = 'runtime monitoring: step-budget termination monitor + strict/tolerant differential + prefix-preservation oracle on the real tolerant parser'
