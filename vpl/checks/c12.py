"""C12 - latex2text content filters: comments, math modes, discards.

Refuting events, for generated documents in which comments, formulas and discarded constructs carry
unique marker words:
  * a comment marker in the output with keep_comments=False; a comment marker at a rendered position
    missing with keep_comments=True;
  * with math_mode='remove', a formula marker in the output; with 'verbatim', the source of a formula
    or math environment not contained unchanged; with 'with-delimiters', a formula marker without its
    delimiters around it; with 'text', a formula marker missing;
  * a marker planted inside a discarded construct in the output.

Oracle: marker presence/absence; the generator knows for each marker whether its position is
rendered (documented precedence: content of discarded constructs and of removed formulas is exempt
from "appears"; a comment inside a formula kept verbatim is part of the formula source).
"""
import re
from ..shard import rng_for
from ..util import converter
from ..rec import Recorder
from pylatexenc.latex2text import LatexNodes2Text

PROPERTY = 'C12'
LEVEL = 'exploration'
RULE = ('generated documents with unique markers in comments, formulas (4 delimiter kinds and all 21 math environments '
        'known to the parser) and discarded constructs, planted at every nesting position (top level, groups, arguments of '
        'formatting macros, list items, unknown environments, inside formulas, inside \\text in formulas, inside discarded '
        'constructs, after a macro, at end of input without newline) x 4 math modes x keep_comments x 6 whitespace policies '
        'x fill_text. Non-trivial = document with >= 3 markers of >= 2 kinds; distinct = distinct (document, options).')
EXHAUSTIVE = {'quick': False, 'thorough': False}
ASSUMPTIONS = ['discarded constructs (no text rule / empty rule): \\label, \\hspace, \\documentclass, \\usepackage, \\setlength, '
               '\\setcounter, \\newcommand, \\hypersetup, \\hphantom, \\vphantom, \\definecolor, \\color, \\pagecolor',
               'with fill_text the verbatim formula source is compared modulo whitespace',
               'comments are not planted between a macro and its argument in the main workload (known finding K2)']

MATH_ENVS = ['equation', 'equation*', 'eqnarray', 'eqnarray*', 'align', 'align*', 'gather', 'gather*', 'flalign', 'flalign*',
             'multline', 'multline*', 'alignat', 'alignat*', 'split']
DELIMS = [('$', '$'), ('\\(', '\\)'), ('\\[', '\\]'), ('$$', '$$')]
DISCARDS = ['\\label{%s}', '\\hspace{%s}', '\\hspace*{%s}', '\\documentclass[%s]{%s}', '\\usepackage[%s]{%s}',
            '\\setlength{%s}{%s}', '\\setcounter{%s}{%s}', '\\hypersetup{%s}', '\\hphantom{%s}', '\\vphantom{%s}',
            '\\definecolor{%s}{%s}{%s}', '\\color{%s}', '\\pagecolor[%s]{%s}', '\\newcommand{\\foo}{%s}',
            # later optional arguments (LaTeX allows blanks in front of them, see discard())
            '\\newcommand{\\foo}[1]{%s}', '\\newcommand*{\\foo}[2][%s]{%s}', '\\renewcommand{\\foo}[1]{%s}']
MATH_MODES = ['text', 'with-delimiters', 'verbatim', 'remove']
SPACES = [False, 'based-on-source', 'macros', 'except-in-equations', True, 'default']
FILL = [None, True, 30]


def plan(tier, seed):
    if tier == 'quick':
        return [{'count': 350, 'optsper': 8, 'name': 'docs%d' % k} for k in range(12)] + [{'special': True, 'name': 'special'}]
    return [{'count': 4000, 'optsper': 16, 'name': 'docs%d' % k} for k in range(24)] + [{'special': True, 'name': 'special'}]


def floors(tier):
    return {'evaluations': 20000, 'distinct_nontrivial': 10000, 'comment_markers_checked': 20000,
            'formula_markers_checked': 20000, 'discard_markers_checked': 5000, 'discards_with_blanks_between_arguments': 300, 'matrix_environments_with_comments': 100, 'math_environments_with_blanks_after_begin_end': 100, 'histkeys:position': 15,
            'histkeys:math_env': 15, 'histkeys:option_cell': 24, 'k2_witness_checked': 1,
            'formulas_with_escaped_active_characters': 500, 'histkeys:entry_point': 3, 'crlf_documents': 500, 'hist:entry_point:latex2text()': 1000}


def setup(rec):
    pass


class Gen(object):
    def __init__(self, rng):
        self.rng = rng
        self.n = 0
        self.markers = []       # dicts
        self.formulas = []
        self.blank_layouts = 0
        self.matrices = 0

    def mark(self, kind, ctx, **kw):
        self.n += 1
        m = {'kind': kind, 'word': '%s%dQ' % ({'C': 'CMT', 'F': 'FRM', 'D': 'DSC'}[kind], self.n),
             'discard': ctx['discard'], 'formula': ctx['formula'], 'position': ctx['position']}
        m.update(kw)
        self.markers.append(m)
        return m

    def words(self):
        return ' '.join(self.rng.choice(['lorem', 'ipsum', 'dolor', 'sit', 'amet', 'x1', 'zz']) for _ in range(self.rng.randint(1, 3)))

    def comment(self, ctx):
        m = self.mark('C', ctx)
        return '%' + m['word'] + '\n'

    def block(self, depth, ctx):
        rng = self.rng
        parts = []
        for _ in range(rng.randint(1, 4 if depth < 2 else 2)):
            parts.append(self.item(depth, ctx))
        out = ''
        for p in parts:
            if out and not out.endswith('\n'):
                out += rng.choice([' ', ' ', '\n'])
            out += p
        return out

    def item(self, depth, ctx):
        rng = self.rng
        r = rng.random()
        if depth >= 3 or r < 0.22:
            return self.words()
        if r < 0.40:
            return self.comment(ctx)
        if r < 0.48:
            return '{' + self.block(depth + 1, dict(ctx, position='group')) + '}'
        if r < 0.58:
            mac = rng.choice(['textbf', 'emph', 'textit', 'texttt', 'textsc'])
            return '\\%s{%s}' % (mac, self.block(depth + 1, dict(ctx, position='argument')))
        if r < 0.64:
            a = self.block(depth + 1, dict(ctx, position='item'))
            b = self.block(depth + 1, dict(ctx, position='item'))
            return '\\begin{itemize}\\item %s\n\\item[x] %s\n\\end{itemize}' % (a, b)
        if r < 0.69:
            if rng.random() < 0.5:
                return '\\begin{zzenv}%s\\end{zzenv}' % self.block(depth + 1, dict(ctx, position='unknown-env'))
            form = rng.choice(['\\begin{center}%s\\end{center}', '\\begin{quote}%s\\end{quote}', '\\begin{abstract}%s\\end{abstract}',
                               '\\begin{enumerate}\\item %s\\end{enumerate}', '\\begin{tabular}{c}%s\\end{tabular}',
                               '\\begin{figure}%s\\end{figure}', 'x\\footnote{%s}', '\\section{%s}',
                               '\\begin{itemize}\\item[%s] y\\end{itemize}'])
            pos = 'optional-argument' if 'item[' in form else ('known-env' if 'begin' in form else 'argument')
            # \section upper-cases its title: no formula there (its source would legitimately change case)
            inner = self.block(depth + 1, dict(ctx, position=pos, noformula=ctx.get('noformula') or 'section' in form))
            if 'item[' in form:
                inner = '{' + inner + '}'          # braces protect any ] inside the optional argument
            return form % inner
        if r < 0.71:
            # matrix-like environments (formatted cell by cell): comments after a cell, after a row separator and after the
            # last row separator
            env = rng.choice(['pmatrix', 'bmatrix', 'array', 'smallmatrix'])
            c1 = self.comment(dict(ctx, position='matrix-cell'))
            c2 = self.comment(dict(ctx, position='after-row-separator'))
            c3 = self.comment(dict(ctx, position='after-last-row-separator'))
            self.matrices += 1
            return '\\begin{%s}%s a & b %s \\\\ %s c & d \\\\ %s\\end{%s}' % (env, '{cc}' if env == 'array' else '', c1, c2, c3, env)
        if r < 0.76:
            form = rng.choice(['\\alpha', '\\alpha', 'x \\\\', 'x\\%', 'y \\&', '{z}', 'w\\,'])
            pos = {'\\alpha': 'after-macro', 'x \\\\': 'after-linebreak', '{z}': 'after-group'}.get(form, 'after-control-symbol')
            return form + self.comment(dict(ctx, position=pos))
        if r < 0.90 and ctx['formula'] is None and not ctx.get('noformula'):
            return self.formula(depth, ctx)
        if r < 0.97 and not ctx['discard']:
            return self.discard(depth, ctx)
        return self.words()

    def formula(self, depth, ctx):
        rng = self.rng
        fid = len(self.formulas)
        self.formulas.append(None)
        if rng.random() < 0.5:
            o, c = rng.choice(DELIMS)
            env = None
        else:
            env = rng.choice(MATH_ENVS)
            # blanks or a line end may stand between \begin / \end and the braced name
            ws1, ws2 = ('', '')
            if rng.random() < 0.25:
                ws1, ws2 = rng.choice(['', ' ', '\n', '  ']), rng.choice(['', ' ', '\n'])
                self.spaced_begin_end = getattr(self, 'spaced_begin_end', 0) + 1
            o = '\\begin%s{%s}' % (ws1, env) + ('{2}' if env.startswith('alignat') else '')
            c = '\\end%s{%s}' % (ws2, env)
        fctx = dict(ctx, formula=fid, position='formula')
        m = self.mark('F', fctx, fid=fid)
        body = [rng.choice(['x', 'a+b', 'y_1']), m['word']]
        if rng.random() < 0.3:
            body.append('\\frac{a}{%s}' % rng.choice(['b', '2']))
        if rng.random() < 0.3:
            body.append('\\text{%s}' % self.words())
        if rng.random() < 0.3:
            body.append(self.comment(dict(fctx, position='comment-in-formula')))
        if rng.random() < 0.2 and env and env not in ('equation', 'equation*', 'split', 'multline', 'multline*'):
            body.append('& z \\\\ w')
        if rng.random() < 0.15:
            body.append('u \\\\' + self.comment(dict(fctx, position='comment-in-formula')) + ' v')
        if rng.random() < 0.3:
            # escaped active characters: macro tokens whose *name* is a delimiter character
            body.append(rng.choice(['\\$', '\\%', '\\#', '\\{z\\}', '\\$ \\$', '\\&']))
            self.escaped_in_formula = getattr(self, 'escaped_in_formula', 0) + 1
        if rng.random() < 0.1:
            # an (unmarked) comment whose whole text is the closing delimiter
            body.append('%' + c + '\n')
        rng.shuffle(body)
        if body[-1].startswith('%'):
            body.append('q')            # a comment must not swallow the closing delimiter
        inner = ' '.join(body)
        src = o + inner + c
        self.formulas[fid] = {'open': o, 'close': c, 'env': env, 'src': src,
                              'beginend': ('\\begin{%s}' % env, '\\end{%s}' % env) if env else (o, c)}
        return src

    def discard(self, depth, ctx):
        rng = self.rng
        t = rng.choice(DISCARDS)
        dctx = dict(ctx, discard=True, position='discarded')
        n = t.count('%s')
        fills = []
        for _ in range(n):
            m = self.mark('D', dctx)
            f = m['word']
            r = rng.random()
            if r < 0.25:
                f += ' ' + self.comment(dctx)
            elif r < 0.45 and ctx['formula'] is None and not ctx.get('noformula'):
                f += ' ' + self.formula(depth + 1, dctx)
            fills.append(f)
        # blanks between the arguments (a blank, a tab or a single line end is allowed in front of any argument)
        if rng.random() < 0.4:
            t = re.sub(r'(?<=[}\]*])(?=[{\[])', lambda mm: rng.choice(['', ' ', '\n', '\t', '  ']), t)
            self.blank_layouts += 1
        return t % tuple(fills)

    def document(self):
        ctx = {'discard': False, 'formula': None, 'position': 'top'}
        s = self.block(0, ctx)
        if self.rng.random() < 0.3:
            m = self.mark('C', dict(ctx, position='eof-no-newline'))
            s = s + (' ' if not s.endswith('\n') else '') + '%' + m['word']
        return s


def squash(t):
    return re.sub(r'\s+', ' ', t)


def convert_via(doc, opts, via):
    """The class, or one of the deprecated module-level functions (keep_inline_math=True is math_mode='verbatim',
    False is 'text'; they take no other option)."""
    if via == 'class':
        return converter(opts, doc).latex_to_text(doc, tolerant_parsing=False)
    import warnings
    from pylatexenc import latex2text as L2T, latexwalker as LW
    kim, kc = (opts['math_mode'] == 'verbatim'), bool(opts['keep_comments'])
    with warnings.catch_warnings():
        warnings.simplefilter('ignore')
        if via == 'latex2text()':
            return L2T.latex2text(doc, tolerant_parsing=False, keep_inline_math=kim, keep_comments=kc)
        nodelist = LW.LatexWalker(doc, tolerant_parsing=False).get_latex_nodes()[0]
        return L2T.latexnodes2text(nodelist, keep_inline_math=kim, keep_comments=kc)


def evaluate(doc, markers, formulas, opts, rec, via='class'):
    """Returns list of (error, mech)."""
    try:
        out = convert_via(doc, opts, via)
    except Exception as e:
        return [('latex_to_text raised %s: %s' % (type(e).__name__, str(e)[:150]), 'raises')]
    mm = opts['math_mode']
    kc = opts['keep_comments']
    errs = []
    # text filling may break a line inside a word that is longer than the remaining width: under fill_text a marker is looked
    # for with all white space removed (which cannot create a marker that is not there: markers are unique words)
    out_nows = re.sub(r'\s+', '', out) if opts.get('fill_text') else out
    for m in markers:
        present = m['word'] in out or m['word'] in out_nows
        rec.hist('position', m['position'])
        f = formulas[m['formula']] if m['formula'] is not None else None
        if f is not None and f['env']:
            rec.hist('math_env', f['env'])
        if m['kind'] == 'D':
            rec.monitor('discard_markers_checked')
            if present:
                errs.append(('marker %s planted inside a discarded construct appears in the output' % m['word'], 'discard-leak'))
            continue
        if m['discard']:
            (rec.monitor('comment_markers_checked') if m['kind'] == 'C' else rec.monitor('formula_markers_checked'))
            if present:
                errs.append(('%s marker %s inside a discarded construct appears in the output'
                             % ('comment' if m['kind'] == 'C' else 'formula', m['word']), 'discard-leak'))
            continue
        if m['kind'] == 'C':
            rec.monitor('comment_markers_checked')
            if f is not None:
                if mm == 'remove':
                    if present:
                        errs.append(('comment marker %s inside a removed formula appears' % m['word'], 'remove-leak'))
                    continue
                if mm == 'verbatim':
                    continue        # part of the formula source, checked there
            if present and not kc:
                errs.append(('comment marker %s (%s) appears although keep_comments=False' % (m['word'], m['position']),
                             'comment-leak'))
            elif kc and not present:
                errs.append(('comment marker %s (%s) is missing although keep_comments=True' % (m['word'], m['position']),
                             'comment-lost:' + m['position']))
            continue
        # formula marker
        rec.monitor('formula_markers_checked')
        if mm == 'remove':
            if present:
                errs.append(("formula marker %s appears with math_mode='remove' (%s)" % (m['word'], f['open']), 'remove-leak'))
        elif mm == 'verbatim':
            src = f['src']
            ok = (src in out) or (opts.get('fill_text') and (squash(src) in squash(out) or
                                                             re.sub(r'\s+', '', src) in out_nows))
            if not ok:
                errs.append(("source of formula %r is not contained unchanged with math_mode='verbatim'" % src,
                             'verbatim-altered'))
        elif mm == 'with-delimiters':
            if not present:
                errs.append(("formula marker %s missing with math_mode='with-delimiters'" % m['word'], 'formula-lost'))
            else:
                b, e = f['beginend']
                text = out
                if opts.get('fill_text'):
                    text, b, e = out_nows, re.sub(r'\s+', '', b), re.sub(r'\s+', '', e)
                p = text.index(m['word'])
                if text.rfind(b, 0, p) < 0 or text.find(e, p) < 0:
                    errs.append(("formula %s does not keep its delimiters %r around its content with 'with-delimiters'"
                                 % (m['word'], (b, e)), 'delimiters-lost'))
        else:
            if not present:
                errs.append(("formula marker %s missing with math_mode='text'" % m['word'], 'formula-lost'))
    return errs


def check_case(case, rec):
    doc, markers, formulas, opts = case['doc'], case['markers'], case['formulas'], case['opts']
    rec.hist('option_cell', '%s/kc%d/ft%s' % (opts['math_mode'], int(opts['keep_comments']), opts.get('fill_text')))
    via = case.get('via', 'class')
    rec.hist('entry_point', via)
    for err, mech in evaluate(doc, markers, formulas, opts, rec, via):
        key = None
        if case.get('k2') and mech.startswith('comment-lost'):
            key = 'K2'
        rec.violation(case, '%s | document %r options %r%s' % (err, doc, opts, '' if via == 'class' else ' via ' + via),
                      mech=key or mech)


def classify(case, msg, mech):
    if mech == 'K2' and case.get('k2'):
        return 'comment-between-macro-and-argument-lost'
    return None


K2_WITNESSES = [
    ('\\textbf %CMT1Q\n {a}', 'CMT1Q'), ('\\frac{a}%CMT1Q\n{b}', 'CMT1Q'), ('\\emph%CMT1Q\n{x} y', 'CMT1Q'),
]


def run_shard(desc, rec):
    rng = rng_for(desc)
    if desc.get('special'):
        for doc, word in K2_WITNESSES:
            for mm in MATH_MODES:
                markers = [{'kind': 'C', 'word': word, 'discard': False, 'formula': None, 'position': 'between-macro-and-argument'}]
                opts = {'math_mode': mm, 'keep_comments': True, 'strict_latex_spaces': False, 'fill_text': None}
                rec.case()
                rec.monitor('k2_witness_checked')
                check_case({'doc': doc, 'markers': markers, 'formulas': [], 'opts': opts, 'k2': True}, rec)
        return
    combos = [(mm, kc, sp, ft) for mm in MATH_MODES for kc in (False, True) for sp in range(len(SPACES)) for ft in range(len(FILL))]
    rng.shuffle(combos)
    ci = 0
    for i in range(desc['count']):
        g = Gen(rng)
        doc = g.document()
        rec.monitor('formulas_with_escaped_active_characters', getattr(g, 'escaped_in_formula', 0))
        rec.monitor('discards_with_blanks_between_arguments', g.blank_layouts)
        rec.monitor('matrix_environments_with_comments', g.matrices)
        rec.monitor('math_environments_with_blanks_after_begin_end', getattr(g, 'spaced_begin_end', 0))
        kinds = set(m['kind'] for m in g.markers)
        for _ in range(desc['optsper']):
            mm, kc, sp, ft = combos[ci % len(combos)]
            ci += 1
            opts = {'math_mode': mm, 'keep_comments': kc, 'strict_latex_spaces': SPACES[sp], 'fill_text': FILL[ft]}
            rec.case()
            case = {'doc': doc, 'markers': g.markers, 'formulas': g.formulas, 'opts': opts}
            if len(g.markers) >= 3 and len(kinds) >= 2:
                rec.nontrivial((doc, mm, kc, sp, ft))
            if (i * 11 + ci) % 2003 == 0:
                rec.sample({'document': doc, 'options': opts})
            check_case(case, rec)
        # the same document with Windows line endings
        if i % 4 == 1:
            crlf = doc.replace('\n', '\r\n')
            fcr = [dict(f, src=f['src'].replace('\n', '\r\n')) if f else f for f in g.formulas]
            for _ in range(2):
                mm, kc, sp, ft = combos[ci % len(combos)]
                ci += 1
                opts = {'math_mode': mm, 'keep_comments': kc, 'strict_latex_spaces': SPACES[sp], 'fill_text': FILL[ft]}
                rec.case()
                rec.monitor('crlf_documents')
                check_case({'doc': crlf, 'markers': g.markers, 'formulas': fcr, 'opts': opts}, rec)
        # the deprecated module-level entry points: their two flags in all four combinations
        if i % 3 == 0:
            for kim in (False, True):
                for kc in (False, True):
                    opts = {'math_mode': 'verbatim' if kim else 'text', 'keep_comments': kc, 'strict_latex_spaces': False,
                            'fill_text': None}
                    rec.case()
                    check_case({'doc': doc, 'markers': g.markers, 'formulas': g.formulas, 'opts': opts,
                                'via': ('latex2text()', 'latexnodes2text()')[(i // 3 + kim + kc) % 2]}, rec)


LEVEL_TEXT = ('Exploration with planted unique markers: thousands of generated documents carry a unique word in every comment, '
              'formula (all delimiter kinds and all math environments known to the parser) and discarded construct, at every '
              'nesting position; each is converted by the real latex2text under rotating combinations of math_mode x '
              'keep_comments x whitespace policy x fill_text and the presence/absence (or verbatim containment, or '
              'surrounding delimiters) of every marker is decided from what the generator knows about its position.')
LEVEL_NOTE = ('Trusted: the generator\'s bookkeeping of marker positions and the list of discarded constructs. Known finding K2 '
              '(a comment between a macro and its argument is not rendered with keep_comments=True) is run as deterministic '
              'witnesses flagged as such; the main workload never plants comments there.')
TECHNIQUE = 'runtime monitoring: planted-marker oracle (presence/absence/verbatim containment) over generated documents x option combinations on the real latex2text'
