"""C15 - \\input never reads outside the configured directory in strict mode.

Refuting events: read_input_file(name) (or latex_to_text('\\input{name}')) returns
text carrying the unique marker of a file whose real path lies outside the real
path of the input directory; a name whose every existing candidate (name,
name.tex, name.latex) is a regular file inside the directory is not read.

Oracle: marker contents + containment computed by the harness with
os.path.realpath, and a sys.addaudithook 'open' monitor recording which files
under the layout root were actually opened during each call (an outside file
opened while non-empty text is returned is a violation even without marker).
"""
import os, sys, shutil, tempfile, itertools
from ..shard import rng_for
from ..rec import Recorder
from pylatexenc.latex2text import LatexNodes2Text

PROPERTY = 'C15'
LEVEL = 'exploration'
RULE = ('generated directory layouts (inside files with/without extension and in subdirectories, outside files, sibling '
        'directories and files sharing the directory name as prefix, file and directory symlinks in both directions, '
        'symlinks that only exist with an implicit extension) x base-directory spellings (plain, trailing slash, via '
        'symlink, relative) x every requested name built from path components up to depth 3 (quick: depth 2 + sampled '
        'depth 3) incl. "..", ".", absolute prefixes, with/without extension, through read_input_file and through '
        'latex_to_text. Non-trivial = name that resolves to an existing file (inside or outside); distinct = distinct '
        '(layout, base spelling, name).')
EXHAUSTIVE = {'quick': False, 'thorough': False}
ASSUMPTIONS = ['containment reference: os.path.realpath(candidate) equals or lies below os.path.realpath(base)',
               'layouts are created under a fresh tempfile.mkdtemp() directory and removed afterwards',
               '"must be read" is asserted for names whose own path (before extension completion) resolves inside; a name '
               'that resolves outside and only lands inside again after extension completion may be refused']

OPENED = []
HOOK = {'on': False, 'root': None, 'installed': False}


def _audit(event, args):
    if event == 'open' and HOOK['on'] and args and isinstance(args[0], str):
        p = args[0]
        if HOOK['root'] and os.path.abspath(p).startswith(HOOK['root']):
            OPENED.append(p)


def plan(tier, seed):
    if tier == 'quick':
        return [{'layouts': 2, 'depth3': 600, 'name': 'fs%d' % k} for k in range(8)] + \
               [{'reuse': True, 'layouts': 2, 'sequences': 150, 'name': 'reuse%d' % k} for k in range(2)]
    return [{'layouts': 3, 'depth3': 15000, 'name': 'fs%d' % k} for k in range(16)] + \
           [{'reuse': True, 'layouts': 6, 'sequences': 3000, 'name': 'reuse%d' % k} for k in range(6)]


def floors(tier):
    return {'evaluations': 10000, 'distinct_nontrivial': 1500, 'outside_targets_requested': 1500,
            'inside_reads_confirmed': 800, 'audit_open_events': 800, 'via_latex_to_text': 1000,
            'histkeys:escape_kind': 6, 'reused_object_calls': 2000, 'reconfigurations': 500,
            'respelled_directory_reads': 5000, 'nested_input_conversions': 300, 'histkeys:converter_options': 4}


def setup(rec):
    if not HOOK['installed']:
        sys.addaudithook(_audit)
        HOOK['installed'] = True


class Layout(object):
    def __init__(self, rng, root):
        self.root = root
        self.rng = rng
        b = rng.choice(['base', 'b', 'in.put', 'tex'])
        self.bname = b
        self.base = os.path.join(root, b)
        self.markers = {}
        self.counter = 0
        os.makedirs(os.path.join(self.base, 'sub', 'subsub'))
        for d in (b + '2', b + '-x', 'other', 'other/deep'):
            os.makedirs(os.path.join(root, d))
        # inside files
        for rel in ('in.tex', 'sub/deep.tex', 'noext', 'sub/subsub/x.latex', 'both', 'both.tex', 'l.latex',
                    # base names with inner dots, requested without their extension
                    'v1.2.tex', 'sub/fig.1.latex', 'a.b.c',
                    # a long name with hyphens and a blank (places where text filling breaks lines)
                    'sub/long-file-name with-hyphens.tex'):
            self.write(os.path.join(b, rel), 'INSIDE')
        # outside files
        for rel in (b + '2/sib.tex', b + '2/in.tex', b + '-x/in.tex', 'other/out.tex', 'other/deep/d.tex', 'secret',
                    b + '.tex', b + '.latex', 'in.tex', 'other/noext'):
            self.write(rel, 'OUTSIDE')
        # a sibling directory whose name differs from the input directory's only by letter case (case-sensitive file system)
        self.cname = b.upper() if b.upper() != b else b.lower()
        if os.path.exists(os.path.join(root, self.cname)):
            self.cname = b + '-case'        # case-insensitive file system: an ordinary sibling instead
        os.makedirs(os.path.join(root, self.cname, 'sub'))
        for rel in (self.cname + '/in.tex', self.cname + '/case.tex', self.cname + '/sub/deep.tex', self.cname + '/noext'):
            self.write(rel, 'OUTSIDE')
        # a second directory with the same relative spelling under another working directory
        os.makedirs(os.path.join(root, 'alt', b, 'sub'))
        for rel in ('alt/' + b + '/in.tex', 'alt/' + b + '/noext', 'alt/' + b + '/sub/deep.tex', 'alt/in.tex'):
            self.write(rel, 'ALT')
        # inside files that themselves \\input other names: a nested request is resolved against the configured directory,
        # whatever path the including file was reached through
        self.write(os.path.join(b, 'nest.tex'), 'INSIDE', ' \\input{secret} \\input{out} \\include{deep/d} \\input{in}')
        self.write(os.path.join(b, 'sub', 'nest2.tex'), 'INSIDE', ' \\input{sib} \\input{../in} \\input{deep}')
        self.write('other/secret.tex', 'OUTSIDE')
        sl = os.symlink
        sl(os.path.join(self.base, 'nest.tex'), os.path.join(root, 'other', 'back.tex'))    # outside name -> inside file
        sl(os.path.join(self.base, 'sub', 'nest2.tex'), os.path.join(root, b + '2', 'back2.tex'))
        sl(os.path.join(root, 'other/out.tex'), os.path.join(self.base, 'lnk.tex'))        # file symlink -> outside
        sl(os.path.join(root, 'other'), os.path.join(self.base, 'lnkdir'))                 # dir symlink -> outside
        sl(os.path.join(self.base, 'in.tex'), os.path.join(self.base, 'lnkin.tex'))        # symlink inside -> inside
        sl(os.path.join(root, 'other/out.tex'), os.path.join(self.base, 'ext.tex'))        # exists only with .tex
        sl(os.path.join(root, 'secret'), os.path.join(self.base, 'ext2.latex'))            # exists only with .latex
        sl('../../other/out.tex', os.path.join(self.base, 'sub', 'rel.tex'))               # relative symlink -> outside
        sl(self.base, os.path.join(root, 'other', 'backin'))                               # outside dir -> base
        sl(os.path.join(self.base, 'sub'), os.path.join(root, 'other', 'tosub'))           # outside dir -> inside subdir
        sl(os.path.join(root, b + '2'), os.path.join(self.base, 'sub', 'up'))              # inside dir link -> sibling
        sl(os.path.join(self.base, 'lnk.tex'), os.path.join(self.base, 'chain.tex'))         # symlink -> symlink -> outside
        sl('../..', os.path.join(self.base, 'sub', 'up2'))                                  # dir symlink to the parent of base
        sl('..', os.path.join(self.base, 'sub', 'self'))                                    # dir symlink back to base (inside)
        sl('v1.2', os.path.join(self.base, 'dotlnk'))                                       # dot-free link -> dotted name that only exists with .tex
        sl(os.path.join(root, 'other', 'noext'), os.path.join(self.base, 'chain2.latex'))   # only with .latex -> outside
        sl(os.path.join(root, self.cname, 'case.tex'), os.path.join(self.base, 'caselnk.tex'))   # file symlink -> case sibling
        sl(os.path.join(root, self.cname), os.path.join(self.base, 'casedir'))                   # dir symlink -> case sibling
        self.components = ['in', 'in.tex', 'sub', 'deep', 'deep.tex', 'subsub', 'x', '..', '.', 'noext', 'both', 'l',
                           'lnk', 'lnk.tex', 'lnkdir', 'out', 'out.tex', 'lnkin', 'ext', 'ext2', 'rel', 'up', 'sib', 'chain', 'chain2',
                           'up2', 'self', 'v1.2', 'fig.1', 'a.b.c', 'dotlnk',
                           'sib.tex', b, b + '2', b + '-x', b + '.tex', 'other', 'secret', 'backin', 'tosub', 'd', '',
                           self.cname, 'case', 'caselnk', 'casedir', 'long-file-name with-hyphens']
        self.nested_names = ['nest', 'nest.tex', 'lnkdir/back', 'lnkdir/back.tex', os.path.join(root, 'other', 'back.tex'),
                             'sub/nest2', 'sub/up/back2', 'sub/up/back2.tex', os.path.join(root, b + '2', 'back2'),
                             '../other/back', 'sub/../nest']
        self.base_spellings = [self.base, self.base + '/', os.path.join(root, 'other', 'backin'),
                               os.path.join(root, b + '2', '..', b), os.path.join(self.base, 'sub', '..'),
                               # a directory symlink followed by '..': the real directory is the base although collapsing
                               # the spelling textually names another directory (<root>/other, which holds files)
                               os.path.join(root, 'other', 'tosub', '..'),
                               os.path.join(self.base, 'lnkdir', '..', b)]

    def write(self, rel, kind, extra=''):
        self.counter += 1
        marker = '%sx%dx%s' % (kind, self.counter, 'qz')
        path = os.path.join(self.root, rel)
        with open(path, 'w') as f:
            f.write(marker + extra)
        self.markers[os.path.realpath(path)] = marker

    def names(self, rng, depth3):
        comps = self.components
        out = []
        for c in comps:
            out.append(c)
        for a, b in itertools.product(comps, repeat=2):
            out.append(a + '/' + b)
        triples = []
        if depth3 >= len(comps) ** 3:
            triples = ['/'.join(t) for t in itertools.product(comps, repeat=3)]
        else:
            for _ in range(depth3):
                triples.append('/'.join(rng.choice(comps) for _ in range(3)))
        out += triples
        # absolute names
        for rel in ('secret', self.bname + '2/sib', self.bname + '2/sib.tex', self.bname + '/in', self.bname + '/in.tex',
                    'other/out', 'other/backin/in', 'other/backin/lnk', self.bname + '.tex', self.bname,
                    self.cname + '/in', self.cname + '/case.tex', self.cname + '/sub/deep', self.cname):
            out.append(os.path.join(self.root, rel))
        # the case sibling through every relative route
        for rel in ('in', 'in.tex', 'case', 'case.tex', 'sub/deep', 'noext'):
            out.append('../' + self.cname + '/' + rel)
            out.append('sub/../../' + self.cname + '/' + rel)
            out.append('casedir/' + rel)
        return out


def inside(rb, path):
    rp = os.path.realpath(path)
    return rp == rb or rp.startswith(rb + os.sep)


def classify_escape(name, lay, base):
    if os.path.isabs(name):
        return 'absolute'
    if lay.cname in name.split('/') or 'casedir' in name.split('/') or 'caselnk' in name:
        return 'case-variant-sibling'
    if '..' in name.split('/'):
        if (lay.bname + '2') in name or (lay.bname + '-x') in name or (lay.bname + '.tex') in name:
            return 'dotdot-prefix-sibling'
        return 'dotdot'
    for c in ('lnkdir', 'up'):
        if c in name.split('/'):
            return 'dir-symlink'
    for c in ('lnk', 'lnk.tex', 'rel'):
        if c in name.split('/'):
            return 'file-symlink'
    for c in ('ext', 'ext2'):
        if c in name.split('/'):
            return 'extension-only-symlink'
    return 'plain'


def evaluate(lay, base, name, via, rec, l2t=None):
    """Returns error or None.  With `l2t` given, that (already configured, possibly re-configured) converter
    object is used instead of a fresh one."""
    rb = os.path.realpath(base)
    cands = [name, name + '.tex', name + '.latex']
    existing = []
    for c in cands:
        p = os.path.join(base, c)
        if os.path.exists(p):
            existing.append(p)
    files = [p for p in existing if os.path.isfile(p)]
    outside_files = [p for p in files if not inside(rb, p)]
    inside_files = [p for p in files if inside(rb, p)]
    # "names that resolve inside are read": the name as written must itself resolve inside; a name whose own path
    # resolves outside and only its extension-completed form lands inside again (symlink out, extension-only symlink back
    # in) is refused by the library's first containment test -- a safe refusal the statement does not clearly exclude
    must_read = bool(existing) and len(files) == len(existing) and not outside_files and \
        inside(rb, os.path.realpath(os.path.join(base, name)))
    if l2t is None:
        # converter options that do not concern files must not change which file is read
        optsets = [{}, {'keep_braced_groups': True}, {'math_mode': 'verbatim', 'keep_comments': True},
                   {'strict_latex_spaces': True, 'keep_braced_groups': True, 'keep_braced_groups_minlen': 0},
                   {'fill_text': True}, {'fill_text': 12, 'keep_comments': True}]
        oi = (len(name) + len(via)) % len(optsets) if via != 'read' else 0
        rec.hist('converter_options', str(oi))
        l2t = LatexNodes2Text(**optsets[oi])
        # strict mode is on for every true value of the flag
        sv = STRICT_VALUES[(len(name) + len(base)) % len(STRICT_VALUES)]
        rec.hist('strict_input_value', repr(sv))
        l2t.set_tex_input_directory(base, strict_input=sv)
    del OPENED[:]
    HOOK['on'] = True
    try:
        if via == 'read':
            text = l2t.read_input_file(name)
        else:
            text = l2t.latex_to_text('\\%s{%s}' % ('input' if len(name) % 2 else 'include', name))
    except Exception as e:
        HOOK['on'] = False
        return 'raised %s: %s' % (type(e).__name__, e)
    finally:
        HOOK['on'] = False
    opened = list(OPENED)
    rec.monitor('audit_open_events', len(opened))
    if outside_files:
        rec.monitor('outside_targets_requested')
        rec.hist('escape_kind', classify_escape(name, lay, base))
    if files:
        rec.nontrivial((lay.bname, base.replace(lay.root, 'R'), name.replace(lay.root, 'R'), via))
    if not isinstance(text, str):
        return 'returned %s, not a string' % type(text).__name__
    for rp, marker in lay.markers.items():
        if marker in text and not (rp == rb or rp.startswith(rb + os.sep)):
            return 'returned the content of %s, whose real path lies outside the input directory' % (
                rp.replace(lay.root, 'R'),)
    out_opened = [p for p in opened if not inside(rb, p)]
    if out_opened:
        rec.monitor('outside_open_events')
        if text.strip():
            return 'opened %r outside the input directory and returned non-empty text %r' % (
                [p.replace(lay.root, 'R') for p in out_opened], text[:60])
    if must_read:
        want = [lay.markers.get(os.path.realpath(p)) for p in inside_files]
        if not any(w and w in text for w in want):
            return 'name resolves inside the directory (%s) but was not read: returned %r' % (
                [p.replace(lay.root, 'R') for p in inside_files], text[:60])
        rec.monitor('inside_reads_confirmed')
    return None


STRICT_VALUES = [True, True, 1, 'yes', 2, [0]]


def configure(l2t, base, strict, how):
    """Returns the (directory, strictness) in force afterwards."""
    if how == 'setter':
        l2t.set_tex_input_directory(base, strict_input=strict)
    elif how == 'attrs':
        l2t.tex_input_directory = base
        l2t.strict_input = strict
    elif how == 'attr-strict':
        l2t.strict_input = strict
    else:
        l2t.tex_input_directory = base
    return l2t.tex_input_directory, bool(l2t.strict_input)


def check_case(case, rec):
    """Replay: rebuild the layout from its seed."""
    import random
    root = tempfile.mkdtemp(prefix='vplc15_')
    try:
        HOOK['root'] = os.path.realpath(root)
        root = os.path.realpath(root)
        lay = Layout(random.Random(case['layout_seed']), root)
        if 'steps' in case:
            l2t = LatexNodes2Text()
            for st in case['steps']:
                (b, strict, name, via), how = st[:4], (st[4] if len(st) > 4 else 'setter')
                b, name = b.replace('<R>', root), name.replace('<R>', root)
                configure(l2t, b, strict, how)
                if not strict:
                    try:
                        (l2t.read_input_file(name) if via == 'read' else l2t.latex_to_text('\\input{%s}' % name))
                    except Exception:
                        pass
                    continue
                err = evaluate(lay, b, name, via, rec, l2t=l2t)
                if err:
                    rec.violation(case, '%s | steps %r' % (err, case['steps']), mech='reuse')
                    break
            return
        base = case['base'].replace('<R>', root)
        name = case['name'].replace('<R>', root)
        cwd = os.getcwd()
        try:
            if case.get('chdir'):
                os.chdir(root)
            err = evaluate(lay, base, name, case['via'], rec)
        finally:
            os.chdir(cwd)
        if err:
            rec.violation(case, '%s | base %r name %r via %s' % (err, case['base'], case['name'], case['via']),
                          mech=err.split(' ')[0])
    finally:
        shutil.rmtree(root, ignore_errors=True)


def run_reuse(desc, rec, rng):
    """One converter object re-configured between calls (other directory, strict off -> on): containment must
    hold for the configuration in force at the time of each call."""
    import random
    for li in range(desc['layouts']):
        root = os.path.realpath(tempfile.mkdtemp(prefix='vplc15_'))
        HOOK['root'] = root
        try:
            lseed = rng.randrange(1 << 30)
            lay = Layout(random.Random(lseed), root)
            bases = [lay.base, os.path.join(root, lay.bname + '2'), os.path.join(root, 'other'), root,
                     os.path.join(root, lay.bname + '-x')]
            names = ['in', 'in.tex', 'noext', 'secret', '../secret', '../in', 'sub/deep', 'out', 'sib', 'lnk', 'ext',
                     '../' + lay.bname + '/in', '../other/out', 'deep/d', 'both', os.path.join(root, 'secret')]
            for si in range(desc['sequences']):
                l2t = LatexNodes2Text()
                steps = []
                # most objects live for a few calls, every fourth one for a long session (dozens of refused and granted
                # requests on the same converter)
                long_session = (si % 4 == 0)
                if long_session:
                    rec.monitor('long_sessions')
                for _ in range(rng.randint(15, 25) if long_session else rng.randint(2, 5)):
                    base = rng.choice(bases)
                    strict = rng.choice(STRICT_VALUES) if rng.random() < 0.7 else rng.choice([False, False, 0, ''])
                    # re-configured through the setter or, once the setter has been used, by assigning the public
                    # attributes it sets ("simply sets properties which are used by ... read_input_file()")
                    how = 'setter' if not steps else rng.choice(['setter', 'attrs', 'attr-strict', 'attr-dir'])
                    base, strict = configure(l2t, base, strict, how)
                    rec.monitor('reconfigurations')
                    rec.hist('reconfigured_through', how)
                    for _ in range(rng.randint(1, 3)):
                        name = rng.choice(names)
                        via = rng.choice(['read', 'l2t', 'l2t'])
                        steps.append([base.replace(root, '<R>'), strict, name.replace(root, '<R>'), via, how])
                        rec.case()
                        rec.monitor('reused_object_calls')
                        if not strict:
                            # not under the property; still performed, it may leave state behind
                            try:
                                (l2t.read_input_file(name) if via == 'read' else l2t.latex_to_text('\\input{%s}' % name))
                            except Exception:
                                pass
                            continue
                        err = evaluate(lay, base, name, via, rec, l2t=l2t)
                        if err:
                            case = {'layout_seed': lseed, 'steps': steps}
                            rec.violation(case, '%s | after re-configuring one converter object: steps %r' % (err, steps),
                                          mech='reuse:' + err.split(' ')[0])
                            break
        finally:
            shutil.rmtree(root, ignore_errors=True)


def run_shard(desc, rec):
    import random
    rng = rng_for(desc)
    if desc.get('reuse'):
        return run_reuse(desc, rec, rng)
    for li in range(desc['layouts']):
        root = os.path.realpath(tempfile.mkdtemp(prefix='vplc15_'))
        HOOK['root'] = root
        cwd = os.getcwd()
        try:
            lseed = rng.randrange(1 << 30)
            lay = Layout(random.Random(lseed), root)
            names = lay.names(rng, desc['depth3'])
            spellings = [(b, False) for b in lay.base_spellings] + [(lay.bname, True), ('./' + lay.bname + '/', True)]
            for si, (base, chdir) in enumerate(spellings):
                if chdir:
                    os.chdir(root)
                try:
                    for ni, name in enumerate(names):
                        # every name through read_input_file; a rotating part also through latex_to_text
                        vias = ['read']
                        tokenizable = all(ch.isalnum() or ch in './-_' for ch in name) and name != ''
                        if tokenizable and (ni + si) % 3 == 0:
                            vias.append('l2t')
                        for via in vias:
                            rec.case()
                            if via == 'l2t':
                                rec.monitor('via_latex_to_text')
                            err = evaluate(lay, base, name, via, rec)
                            if (ni * 7 + si) % 1009 == 0:
                                rec.sample({'base': base.replace(root, '<R>'), 'name': name.replace(root, '<R>'), 'via': via})
                            if err:
                                case = {'layout_seed': lseed, 'base': base.replace(root, '<R>'),
                                        'name': name.replace(root, '<R>'), 'via': via, 'chdir': chdir}
                                rec.violation(case, '%s | base %r name %r via %s' % (err, case['base'], case['name'], via),
                                              mech=err.split(' ')[0])
                finally:
                    os.chdir(cwd)
            # files that contain \\input themselves, converted (not just read) through every spelling of their name
            for base in (lay.base, lay.base + '/', os.path.join(root, 'other', 'backin')):
                for name in lay.nested_names:
                    rec.case()
                    rec.monitor('nested_input_conversions')
                    err = evaluate(lay, base, name, 'l2t', rec)
                    if err:
                        case = {'layout_seed': lseed, 'base': base.replace(root, '<R>'), 'name': name.replace(root, '<R>'),
                                'via': 'l2t', 'chdir': False}
                        rec.violation(case, '%s | base %r name %r via l2t (file with nested \\input)' % (
                            err, case['base'], case['name']), mech='nested:' + err.split(' ')[0])
            # one spelling whose meaning changes within the process: the relative name under another working
            # directory, and a directory symlink that is re-pointed between uses
            few = names[:len(lay.components)] + [rng.choice(names) for _ in range(150)] + names[-10:]
            cur = os.path.join(root, 'cur')
            for base, wd, target in ((lay.bname, os.path.join(root, 'alt'), None), ('./' + lay.bname + '/', root, None),
                                     (cur, None, lay.base), (cur, None, os.path.join(root, 'other')),
                                     (cur, None, os.path.join(root, 'alt', lay.bname)), (lay.bname, root, None)):
                if target is not None:
                    if os.path.islink(cur):
                        os.remove(cur)
                    os.symlink(target, cur)
                if wd:
                    os.chdir(wd)
                try:
                    for name in few:
                        rec.case()
                        rec.monitor('respelled_directory_reads')
                        err = evaluate(lay, base, name, 'read', rec)
                        if err:
                            case = {'layout_seed': lseed, 'base': base.replace(root, '<R>'), 'name': name.replace(root, '<R>'),
                                    'via': 'read', 'respelled': [wd and wd.replace(root, '<R>'), target and target.replace(root, '<R>')]}
                            rec.violation(case, '%s | base %r (working directory %r, symlink target %r) name %r' % (
                                err, case['base'], case['respelled'][0], case['respelled'][1], case['name']),
                                mech='respelled:' + err.split(' ')[0])
                finally:
                    os.chdir(cwd)
        finally:
            os.chdir(cwd)
            shutil.rmtree(root, ignore_errors=True)


LEVEL_TEXT = ('Exploration over generated file-system layouts with marker and audit-hook oracles: for every base-directory '
              'spelling and every requested name built from path components (to depth 2 exhaustively, depth 3 sampled '
              'in quick / exhaustive in thorough), the real read_input_file / latex_to_text is called with strict_input '
              'and the returned text is scanned for the unique markers of all files whose real path is outside; a '
              'sys.addaudithook monitor records which files were actually opened; names that resolve to regular files '
              'inside must be read.')
LEVEL_NOTE = ('Trusted: os.path.realpath as the containment reference; the layout builder. The check creates and removes '
              'a scratch directory under the system temp dir on every run; nothing is kept there.')
TECHNIQUE = 'runtime monitoring: sys.addaudithook open-event monitor + unique content markers over generated directory layouts and path-component enumeration'
