"""C13 - encoded text is inert, strictly parseable LaTeX, ASCII-only when asked.

Refuting events, for the output of UnicodeToLatexEncoder with either built-in rule set:
  * it does not parse in strict mode;
  * its parse contains comment, environment or math nodes beyond those contained in the replacement
    strings themselves (an active character of the input was not neutralised);
  * it contains a non-ASCII character under unknown_char_policy replace / ignore / unihex;
  * under 'fail', ValueError is raised although every character has a rule or is pass-through ASCII,
    or is not raised although some character has neither.

Oracle: the real strict parser as judge of the output + node-kind census with per-chunk accounting
(recording result class) + str.isascii + an independent "has rule or passes through" predicate.
"""
import itertools, unicodedata, re
from ..shard import rng_for
from ..util import parse, LatexWalkerParseError, ddmin_string
from ..mon import canon
from ..rec import Recorder
from pylatexenc.latexencode import UnicodeToLatexEncoder, get_builtin_conversion_rules

PROPERTY = 'C13'
LEVEL = 'exploration'
RULE = ('every ordering of the 10 LaTeX-active ASCII characters # $ % & \\ ^ _ { } ~ up to length 3 mixed with the neighbours '
        'a, space, b (exhaustive), every character with a built-in rule alone and in 6 neighbour contexts, and random '
        'mixtures incl. control, combining, astral, unassigned and surrogate code points; every code point below U+0400 '
        'alone and between letters under every policy; x 5 protection schemes x 2 '
        'built-in rule sets x 5 unknown-character policies. Non-trivial = input containing an active character or a '
        'character with a built-in rule; distinct = distinct (input, rule set, scheme, policy).')
EXHAUSTIVE = {'quick': False, 'thorough': False}
ASSUMPTIONS = ['U+007F is not generated', 'comment/environment/math nodes are allowed up to the number found when the '
               'individual replacement chunks are parsed on their own (one unicode-xml entry contains $..$)']

ACTIVE = list('#$%&\\^_{}~')
SCHEMES = ['none', 'braces', 'braces-all', 'braces-almost-all', 'braces-after-macro']
POLICIES = ['keep', 'replace', 'ignore', 'fail', 'unihex']
RULESETS = ['defaults', 'unicode-xml']
CONTEXTS = ['%s', '%sa', 'a%s', '{%s}', '%s %s', '%s$', '\\%s', '%s}', '%s[y', '%s*', '%s[', '%s(', '%s<a']
_TABLE = {}


def table(name):
    if name not in _TABLE:
        _TABLE[name] = get_builtin_conversion_rules(name)[0].rule
    return _TABLE[name]


def plan(tier, seed):
    if tier == 'quick':
        return [{'kind': 'active', 'k': k, 'n': 4, 'name': 'active%d' % k} for k in range(4)] + \
               [{'kind': 'keys', 'k': k, 'n': 6, 'name': 'keys%d' % k} for k in range(6)] + \
               [{'kind': 'random', 'count': 2500, 'name': 'rand%d' % k} for k in range(6)] + \
               [{'kind': 'norule', 'k': k, 'n': 2, 'extra': 600, 'name': 'norule%d' % k} for k in range(2)] + \
               [{'kind': 'module', 'count': 4000, 'name': 'module%d' % k} for k in range(2)]
    return [{'kind': 'active', 'k': k, 'n': 8, 'full': True, 'name': 'active%d' % k} for k in range(8)] + \
           [{'kind': 'keys', 'k': k, 'n': 12, 'full': True, 'name': 'keys%d' % k} for k in range(12)] + \
           [{'kind': 'random', 'count': 40000, 'name': 'rand%d' % k} for k in range(12)] + \
           [{'kind': 'norule', 'k': k, 'n': 8, 'extra': 20000, 'full': True, 'name': 'norule%d' % k} for k in range(8)] + \
           [{'kind': 'module', 'count': 60000, 'name': 'module%d' % k} for k in range(4)]


def floors(tier):
    return {'evaluations': 40000, 'distinct_nontrivial': 20000, 'outputs_parsed_strictly': 30000,
            'ascii_checked': 10000, 'fail_policy_decided': 5000, 'fail_policy_raised': 200,
            'histkeys:scheme': 5, 'histkeys:ruleset': 2, 'histkeys:policy': 5, 'k1_witness_checked': 5,
            'codepoints_probed_alone': 1000, 'module_function_calls': 5000, 'module_fail_policy_raised': 100,
            'legacy_function_calls': 5000, 'encoded_after_legacy_table_edit': 100, 'partial_encoders_built_on_the_shared_rule_list': 2000, 'legacy_fail_raised': 500, 'histkeys:legacy_flags': 16}


def setup(rec):
    pass


class Chunks(object):
    def __init__(self):
        self.chunks = []

    def __iadd__(self, s):
        self.chunks.append(s)
        return self


BAD_KINDS = ('comment', 'env', 'math')
_CENSUS_CACHE = {}


def census(nl):
    c = {'comment': 0, 'env': 0, 'math': 0}
    for n in canon.walk(nl):
        k = canon.kind(n)
        if k in c:
            c[k] += 1
    return c


def chunk_census(chunk):
    if chunk not in _CENSUS_CACHE:
        if len(_CENSUS_CACHE) > 20000:
            _CENSUS_CACHE.clear()
        try:
            _CENSUS_CACHE[chunk] = census(parse(chunk, tolerant=False))
        except Exception:
            _CENSUS_CACHE[chunk] = {'comment': 0, 'env': 0, 'math': 0}
    return _CENSUS_CACHE[chunk]


def has_rule_or_passes(ch, tab):
    o = ord(ch)
    return o in tab or 32 <= o <= 126 or ch in '\n\r\t'


_BARE_MACRO = re.compile(r'^\\(?:[A-Za-z]+|[^A-Za-z])$')


def k1_codepoints(s, ruleset):
    """Combining marks of the input whose unicode-xml entry is a bare (argument-less written) macro."""
    if ruleset != 'unicode-xml':
        return []
    tab = table(ruleset)
    return [c for c in unicodedata.normalize('NFC', s)
            if 0x300 <= ord(c) <= 0x36f and ord(c) in tab and _BARE_MACRO.match(tab[ord(c)])]


SHARED_RULE_LISTS = {}


def evaluate(s, ruleset, scheme, policy, rec):
    """Returns (error or None)."""
    tab = table(ruleset)
    ns = unicodedata.normalize('NFC', s)
    try:
        # callers keep their rule list around: the same list object configures every encoder of the process, now and then
        # also a PartialLatexToLatexEncoder (which adds a rule of its own in front of the ones it is given)
        shared = SHARED_RULE_LISTS.setdefault(ruleset, [ruleset])
        if len(s) % 7 == 3:
            from pylatexenc.latexencode import PartialLatexToLatexEncoder
            PartialLatexToLatexEncoder(conversion_rules=shared, replacement_latex_protection=scheme,
                                       unknown_char_policy=('keep' if policy == 'fail' else policy)).unicode_to_latex(s[:3])
            rec.monitor('partial_encoders_built_on_the_shared_rule_list')
        enc = UnicodeToLatexEncoder(conversion_rules=shared, replacement_latex_protection=scheme,
                                    unknown_char_policy=policy, unknown_char_warning=(len(s) % 3 == 1),
                                    latex_string_class=Chunks)
        res = enc.unicode_to_latex(s)
        raised = False
    except ValueError as e:
        raised = True
        if policy != 'fail':
            return "ValueError with unknown_char_policy=%r: %s" % (policy, e)
    except Exception as e:
        return 'encoder raised %s: %s' % (type(e).__name__, e)
    if policy == 'fail':
        rec.monitor('fail_policy_decided')
        must = any(not has_rule_or_passes(c, tab) for c in ns)
        if must != raised:
            bad = [c for c in ns if not has_rule_or_passes(c, tab)]
            return "policy 'fail': ValueError %s although %s" % (
                'raised' if raised else 'not raised',
                ('characters %r have neither a rule nor are pass-through ASCII' % bad) if must
                else 'every character has a rule or is pass-through ASCII')
        if raised:
            rec.monitor('fail_policy_raised')
            return None
    chunks = res.chunks
    out = ''.join(chunks)
    if policy in ('replace', 'ignore', 'unihex'):
        rec.monitor('ascii_checked')
        if not out.isascii():
            return 'output %r is not pure ASCII under unknown_char_policy=%r' % (out, policy)
    try:
        nl = parse(out, tolerant=False)
    except LatexWalkerParseError as e:
        return 'output %r does not parse in strict mode: %s' % (out, str(getattr(e, 'msg', e))[:100])
    except Exception as e:
        return 'strict parse of output %r raised %s' % (out, type(e).__name__)
    rec.monitor('outputs_parsed_strictly')
    got = census(nl)
    allowed = {'comment': 0, 'env': 0, 'math': 0}
    for ch in chunks:
        if len(ch) > 1:
            cc = chunk_census(ch)
            for k in allowed:
                allowed[k] += cc[k]
    for k in BAD_KINDS:
        if got[k] > allowed[k]:
            return 'output %r contains %d %s node(s), the replacement strings account for %d: an active character ' \
                   'of the input was not neutralised' % (out, got[k], k, allowed[k])
    return None


def evaluate_module(s, scheme, policy, non_ascii_only, rec):
    """The documented convenience function latexencode.unicode_to_latex() ('defaults' rules; encoder objects are
    cached inside the library across calls, so calls are made in random option order within one process)."""
    from pylatexenc import latexencode
    tab = table('defaults')
    ns = unicodedata.normalize('NFC', s)
    rec.monitor('module_function_calls')
    try:
        out = latexencode.unicode_to_latex(s, non_ascii_only=non_ascii_only, replacement_latex_protection=scheme,
                                           unknown_char_policy=policy, unknown_char_warning=False)
        raised = False
    except ValueError as e:
        raised = True
        if policy != 'fail':
            return "module-level unicode_to_latex: ValueError with unknown_char_policy=%r: %s" % (policy, e)
    except Exception as e:
        return 'module-level unicode_to_latex raised %s: %s' % (type(e).__name__, e)
    if policy == 'fail':
        # with non_ascii_only every character below 127 is passed through before any rule is looked at (documented)
        must = any(not has_rule_or_passes(c, tab) and not (non_ascii_only and ord(c) < 127) for c in ns)
        if must != raised:
            return "module-level unicode_to_latex, policy 'fail': ValueError %s although %s" % (
                'raised' if raised else 'not raised',
                'some character has neither a rule nor is pass-through ASCII' if must
                else 'every character has a rule or is pass-through ASCII')
        if raised:
            rec.monitor('module_fail_policy_raised')
            return None
    if policy in ('replace', 'ignore', 'unihex') and not out.isascii():
        return 'module-level unicode_to_latex: output %r is not pure ASCII under unknown_char_policy=%r' % (out, policy)
    if not non_ascii_only:
        try:
            parse(out, tolerant=False)
        except LatexWalkerParseError as e:
            return 'module-level unicode_to_latex: output %r does not parse in strict mode: %s' % (
                out, str(getattr(e, 'msg', e))[:100])
    return None


def evaluate_legacy(s, non_ascii_only, brackets, substitute, fail, rec):
    """utf8tolatex(), the pylatexenc-1 spelling of the encoder that is still provided and documented: fail_bad_chars is its
    'fail' policy, substitute_bad_chars its 'replace' policy."""
    from pylatexenc import latexencode
    import logging
    tab = latexencode.utf82latex
    ns = unicodedata.normalize('NFC', s)
    rec.monitor('legacy_function_calls')
    rec.hist('legacy_flags', 'n%d b%d s%d f%d' % (non_ascii_only, brackets, substitute, fail))

    def passes(c):
        o = ord(c)
        return (non_ascii_only and o < 127) or o in tab or 32 <= o <= 127 or c in '\n\r\t'
    lg = logging.getLogger('pylatexenc.latexencode')
    old = lg.level
    lg.setLevel(logging.ERROR)
    try:
        out = latexencode.utf8tolatex(s, non_ascii_only=non_ascii_only, brackets=brackets,
                                      substitute_bad_chars=substitute, fail_bad_chars=fail)
        raised = False
    except ValueError:
        raised = True
    except Exception as e:
        return 'utf8tolatex raised %s: %s' % (type(e).__name__, e)
    finally:
        lg.setLevel(old)
    must = fail and any(not passes(c) for c in ns)
    if must != raised:
        return 'utf8tolatex(fail_bad_chars=%r): ValueError %s although %s' % (
            fail, 'raised' if raised else 'not raised',
            ('characters %r have no substitution' % [c for c in ns if not passes(c)]) if must
            else 'every character has a substitution or is ordinary ASCII (or fail_bad_chars is off)')
    if raised:
        rec.monitor('legacy_fail_raised')
        return None
    if substitute and not out.isascii():
        return 'utf8tolatex(substitute_bad_chars=True): output %r is not pure ASCII' % (out,)
    if brackets and not non_ascii_only and (substitute or all(passes(c) for c in ns)):
        try:
            parse(out, tolerant=False)
        except LatexWalkerParseError as e:
            return 'utf8tolatex: output %r does not parse in strict mode: %s' % (out, str(getattr(e, 'msg', e))[:100])
        rec.monitor('legacy_outputs_parsed_strictly')
    return None


def check_case(case, rec):
    if case.get('what') == 'legacy':
        err = evaluate_legacy(case['s'], case['non_ascii_only'], case['brackets'], case['substitute'], case['fail'], rec)
        if err:
            rec.violation(case, '%s | input %r non_ascii_only=%s brackets=%s substitute_bad_chars=%s fail_bad_chars=%s' % (
                err, case['s'], case['non_ascii_only'], case['brackets'], case['substitute'], case['fail']), mech='legacy')
        return
    if case.get('what') == 'module':
        err = evaluate_module(case['s'], case['scheme'], case['policy'], case['non_ascii_only'], rec)
        if err:
            rec.violation(case, '%s | input %r scheme %s policy %s non_ascii_only %s' % (
                err, case['s'], case['scheme'], case['policy'], case['non_ascii_only']), mech='module')
        return
    s, ruleset, scheme, policy = case['s'], case['ruleset'], case['scheme'], case['policy']
    rec.hist('scheme', scheme)
    rec.hist('ruleset', ruleset)
    rec.hist('policy', policy)
    err = evaluate(s, ruleset, scheme, policy, rec)
    if err:
        mech = None
        k1 = k1_codepoints(s, ruleset)
        if k1 and 'does not parse' in err:
            s2 = ''.join(c for c in unicodedata.normalize('NFC', s) if c not in k1)
            r2 = Recorder()
            if evaluate(s2, ruleset, scheme, policy, r2) is None:
                mech = 'K1'
        rec.violation(case, '%s | input %r rule set %s scheme %s policy %s' % (err, s, ruleset, scheme, policy), mech=mech)


def classify(case, msg, mech):
    if mech == 'K1':
        return 'xml-combining-mark-bare-accent'
    return None


def shrink(v):
    case = dict(v['case'])

    def fails(x):
        r = Recorder()
        check_case(dict(case, s=x), r)
        return r.n_violations > 0
    case['s'] = ddmin_string(case['s'], fails, max_tests=200)
    r = Recorder()
    check_case(case, r)
    return r.violations[0] if r.violations else v


def combos(i, full=False):
    if full:
        return [(rs, sc, po) for rs in RULESETS for sc in SCHEMES for po in POLICIES]
    # rotating: both rule sets, one scheme, one policy + the default scheme
    out = []
    for t, rs in enumerate(RULESETS):
        out.append((rs, SCHEMES[(i + t) % 5], POLICIES[(i // 5 + t) % 5]))
        out.append((rs, 'braces', POLICIES[(i // 3 + t) % 5]))
    return out


def run_shard(desc, rec):
    rng = rng_for(desc)
    kind = desc['kind']
    full = desc.get('full', False)
    if kind == 'active':
        alpha = ACTIVE + ['a', ' ', 'b']
        idx = 0
        for L in range(1, 4):
            for t in itertools.product(alpha, repeat=L):
                idx += 1
                if idx % desc['n'] != desc['k']:
                    continue
                s = ''.join(t)
                for (rs, sc, po) in combos(idx, full):
                    rec.case()
                    if any(c in ACTIVE for c in s):
                        rec.nontrivial((s, rs, sc, po))
                    check_case({'s': s, 'ruleset': rs, 'scheme': sc, 'policy': po}, rec)
        # neighbours that could re-form environments / macros
        for s in ['\\begin{x}', '\\end{x}', 'begin{a}', '\\[a\\]', '\\(a\\)', '$$a$$', '%\n', '\\verb|x|', '~~', '^^M', '\\\\',
                  '{\\}', '}{', '\\{', '$a$', 'a%b\nc', '#1', '&&', '_a^b', '\\_', '\\$\\$']:
            for (rs, sc, po) in combos(len(s), True):
                rec.case()
                rec.nontrivial((s, rs, sc, po))
                check_case({'s': s, 'ruleset': rs, 'scheme': sc, 'policy': po}, rec)
    elif kind == 'module':
        # a pylatexenc-1 style caller customises utf8tolatex() by editing the module-level dictionary utf82latex (documented
        # as still possible): the encoder classes and unicode_to_latex() keep their built-in rules
        from pylatexenc import latexencode
        legacy_tab = latexencode.utf82latex
        edited = (ord('$'), ord('%'), ord('{'), 0xe9)
        saved = {k: legacy_tab.get(k) for k in edited}
        legacy_tab[ord('$')] = '$'
        legacy_tab[ord('{')] = '{'
        legacy_tab[0xe9] = '\xe9'
        del legacy_tab[ord('%')]
        try:
            for s in ['$', 'a$b', '%', '100% $x$', '{', 'a{b', '\xe9', 'caf\xe9 $5 {x} 10%']:
                for (rs, sc, po) in combos(len(s), True):
                    rec.case()
                    rec.monitor('encoded_after_legacy_table_edit')
                    check_case({'s': s, 'ruleset': rs, 'scheme': sc, 'policy': po}, rec)
                for po in POLICIES:
                    rec.case()
                    check_case({'what': 'module', 's': s, 'scheme': 'braces', 'policy': po, 'non_ascii_only': False}, rec)
        finally:
            for k, v in saved.items():
                if v is None:
                    legacy_tab.pop(k, None)
                else:
                    legacy_tab[k] = v
        keys = [k for k in sorted(table('defaults')) if k != 127]
        pool = ACTIVE + ['a', 'b', ' ', 'e']
        for i in range(desc['count']):
            cs = []
            for _ in range(rng.randint(1, 6)):
                r = rng.random()
                if r < 0.4:
                    cs.append(rng.choice(pool))
                elif r < 0.7:
                    cs.append(chr(rng.choice(keys)))
                else:
                    cs.append(rng.choice(['\u4e2d', '\ue000', '\U0001F600', '\u0378', '\x01', '\u3042', '\u05d0']))
            s = ''.join(cs)
            case = {'what': 'module', 's': s, 'scheme': rng.choice(SCHEMES), 'policy': rng.choice(POLICIES),
                    'non_ascii_only': rng.random() < 0.3}
            rec.case()
            rec.nontrivial((s, case['scheme'], case['policy'], case['non_ascii_only']))
            check_case(case, rec)
            rec.case()
            check_case({'what': 'legacy', 's': s, 'non_ascii_only': rng.random() < 0.3, 'brackets': rng.random() < 0.7,
                        'substitute': rng.random() < 0.5, 'fail': rng.random() < 0.5}, rec)
    elif kind == 'norule':
        # every code point below U+0400 (and a sample above, incl. surrogates, private use, unassigned, astral):
        # the boundary between pass-through ASCII, characters with a rule and characters left to the policy
        cps = [c for c in range(0, 0x400) if c != 127]
        for _ in range(desc['extra']):
            cps.append(rng.choice([rng.randrange(0x400, 0x3000), rng.randrange(0x3000, 0x10000),
                                   rng.randrange(0x10000, 0x110000), rng.randrange(0xd800, 0xe000)]))
        for idx, o in enumerate(cps):
            if idx % desc['n'] != desc['k']:
                continue
            ch = chr(o)
            rec.monitor('codepoints_probed_alone')
            for s in (ch, 'a' + ch + 'b'):
                for po in POLICIES:
                    for rs in RULESETS:
                        sc = SCHEMES[(idx + len(s)) % 5]
                        rec.case()
                        rec.nontrivial((s, rs, sc, po))
                        check_case({'s': s, 'ruleset': rs, 'scheme': sc, 'policy': po}, rec)
    elif kind == 'keys':
        keys = sorted(set(table('defaults')) | set(table('unicode-xml')))
        for idx, o in enumerate(keys):
            if idx % desc['n'] != desc['k'] or o == 127:
                continue
            ch = chr(o)
            if 0x300 <= o <= 0x36f:
                rec.monitor('k1_witness_checked')
            for ci, ctxt in enumerate(CONTEXTS):
                s = ctxt.replace('%s', ch)
                for (rs, sc, po) in combos(idx + ci, full and ci < 3):
                    rec.case()
                    rec.nontrivial((s, rs, sc, po))
                    check_case({'s': s, 'ruleset': rs, 'scheme': sc, 'policy': po}, rec)
    else:
        keys = sorted(set(table('defaults')) | set(table('unicode-xml')))
        keys = [k for k in keys if k != 127]
        base = ACTIVE + ['a', 'b', ' ', '\n', 'e', 'g', 'i', 'n', 'd', '[', ']', '*', '|', '-', '`', "'", '"', '<', '>']
        for i in range(desc['count']):
            L = rng.randint(1, 8)
            cs = []
            for _ in range(L):
                r = rng.random()
                if r < 0.5:
                    cs.append(rng.choice(base))
                elif r < 0.8:
                    cs.append(chr(rng.choice(keys)))
                elif r < 0.9:
                    c = chr(rng.randrange(0x20, 0x3000))
                    cs.append(c if c != '\x7f' else 'x')
                else:
                    cs.append(rng.choice(['\x00', '\x1b', '\U0001F600', '́', '͸', '\ud800', '\U000e0001', '\xad']))
            s = ''.join(cs)
            for (rs, sc, po) in combos(i):
                rec.case()
                rec.nontrivial((s, rs, sc, po))
                if i % 900 == 0 and rs == 'defaults':
                    rec.sample({'input': s, 'ruleset': rs, 'scheme': sc, 'policy': po})
                check_case({'s': s, 'ruleset': rs, 'scheme': sc, 'policy': po}, rec)


LEVEL_TEXT = ('Exploration with the real strict parser as judge: the real encoder output for every short ordering of the active '
              'characters, every built-in key in 8 neighbour contexts and random mixtures, under all protection schemes, both '
              'rule sets and all policies, is parsed strictly; its node-kind census is compared with what the individual '
              'replacement chunks (recording result class) account for, ASCII-ness and the exact raise condition of '
              "'fail' are asserted independently.")
LEVEL_NOTE = ('Trusted: the strict parser of the same library as judge of well-formedness (its own properties are C01/C02/C05), '
              'the rule tables as data. Known finding K1 is matched by a classifier on the input (unicode-xml, a combining '
              'mark whose entry is a bare macro) that also requires the failure to disappear when those marks are removed.')
TECHNIQUE = 'runtime monitoring: strict-parse + node-census oracle with per-chunk accounting over encoder outputs for enumerated active-character orderings, all table keys and random mixtures'
